/-
Props/C16.lean — pbulk-index output splits into one record per PKGNAME, fields never
leaking.  Property theorems only; helper lemmas live in Lemmas/.
-/
import PkgsrcVerif.Lemmas.ScanIndex
open M L

/-- Reading = cut the trimmed non-blank lines before every `PKGNAME=` line, then parse each
    block ON ITS OWN, in order: record k is a function of block k only (field isolation),
    and the read fails as a whole as soon as any block fails. -/
theorem C16_one_per_block (ls : List Str) :
    readLoop [] [] ls = mapMOpt toIndex (segments [] ls) := by
  rw [readLoop_segments]
  cases mapMOpt toIndex (segments [] ls) <;> simp

/-- the blocks, concatenated, are exactly the non-blank lines in input order: no line is
    lost, duplicated, or attributed to a neighbouring record -/
theorem C16_blocks_partition (ls : List Str) :
    (segments [] ls).flatten = ls.filter (!·.isEmpty) := by
  simpa using segments_flatten [] ls

/-- every block after the first starts at a `PKGNAME=` line, and no block contains a second
    one: exactly one record per `PKGNAME=` line (when the first non-blank line is one) -/
theorem C16_one_per_pkgname (ls : List Str) :
    (∀ seg ∈ (segments [] ls).drop 1, ∃ l rest, seg = l :: rest ∧ startsWithPkgname l = true) ∧
    (∀ seg ∈ segments [] ls, ∀ l ∈ seg.drop 1, startsWithPkgname l = false) :=
  ⟨segments_heads [] ls, segments_shape [] ls (by simp)⟩

/-- the read fails as a whole — never a partial or shifted list — if the reader reports an
    I/O error, or some line is not UTF-8, or any block is rejected -/
theorem C16_fails_whole (b : Bytes) :
    fromReader b true = none ∧
    (readerLines b = none → fromReader b false = none) ∧
    (∀ ls, readerLines b = some ls → (∃ seg ∈ segments [] (ls.map trim), toIndex seg = none) →
      fromReader b false = none) := by
  refine ⟨rfl, fun h => by simp [fromReader, h], ?_⟩
  intro ls hls ⟨seg, hseg, hnone⟩
  simp only [fromReader, hls, Bool.false_eq_true, if_false, C16_one_per_block]
  -- mapM fails if one element fails
  have : ∀ (l : List (List Str)), seg ∈ l → mapMOpt toIndex l = none := by
    intro l
    induction l with
    | nil => intro h; cases h
    | cons a l ih =>
      intro h
      simp only [mapMOpt_cons]
      rcases List.mem_cons.mp h with rfl | h
      · simp [hnone]
      · cases toIndex a <;> simp [ih h]
  exact this _ hseg

/-- a block without PKGNAME is rejected -/
theorem C16_pkgname_required (blk : List Str) (h : (keyValues blk).get "PKGNAME" = none) :
    toIndex blk = none := by
  unfold toIndex
  simp only [h]
  split <;> rfl

theorem splitOnceEq_first (k v : Str) (hnoeq : '=' ∉ k) : splitOnceEq (k ++ '=' :: v) = some (k, v) := by
  induction k with
  | nil => simp [splitOnceEq]
  | cons c k ih =>
    simp only [List.mem_cons, not_or] at hnoeq
    have hc : (c == '=') = false := by simpa using fun e => hnoeq.1 e.symm
    simp [splitOnceEq, hc, ih hnoeq.2]

theorem keyValues_append (a b : List Str) : keyValues (a ++ b) = keyValues a ++ keyValues b := by
  simp [keyValues, List.filterMap_append]

theorem keyValues_cons_kv (k v : Str) (rest : List Str) (hnoeq : '=' ∉ k) :
    keyValues ((k ++ '=' :: v) :: rest) = (trim k, trim v) :: keyValues rest := by
  simp [keyValues, List.filterMap_cons, splitOnceEq_first k v hnoeq]

/-- scalar fields hold the trimmed value of the LAST line for their key -/
theorem C16_scalar_last_wins (pre post : List Str) (k v : Str) (key : String)
    (hk : trim k = key.toList) (hnoeq : '=' ∉ k)
    (hpost : ∀ l ∈ post, ∀ k' v', splitOnceEq l = some (k', v') → trim k' ≠ key.toList) :
    (keyValues (pre ++ (k ++ '=' :: v) :: post)).get key = some (trim v) := by
  have hpostkv : ∀ kv ∈ keyValues post, (kv.1 == key.toList) = false := by
    intro kv hkv
    simp only [keyValues, List.mem_filterMap] at hkv
    obtain ⟨l, hl, hsome⟩ := hkv
    cases hs : splitOnceEq l with
    | none => simp [hs] at hsome
    | some kv' =>
      obtain ⟨k', v'⟩ := kv'
      simp only [hs, Option.map_some, Option.some.injEq] at hsome
      subst hsome
      simpa using hpost l hl k' v' hs
  rw [keyValues_append, keyValues_cons_kv k v post hnoeq]
  simp only [KV.get, List.reverse_append, List.reverse_cons, List.append_assoc, List.singleton_append]
  rw [List.find?_append]
  have hnone : (keyValues post).reverse.find? (fun kv => kv.1 == key.toList) = none := by
    rw [List.find?_eq_none]; intro kv hkv; simp [hpostkv kv (by simpa using hkv)]
  simp [hnone, hk]

/-- lines without '=' are ignored -/
theorem C16_noise_inert (pre post : List Str) (l : Str) (h : '=' ∉ l) :
    keyValues (pre ++ l :: post) = keyValues (pre ++ post) := by
  have : splitOnceEq l = none := by
    induction l with
    | nil => rfl
    | cons c l ih =>
      simp only [List.mem_cons, not_or] at h
      have hc : (c == '=') = false := by simpa using fun e => h.1 e.symm
      simp [splitOnceEq, hc, ih h.2]
  simp [keyValues, List.filterMap_append, this]

/-- non-vacuity: two records, a shared key present only in the second -/
example : (segments [] ["PKGNAME=a-1".toList, [], "PKGNAME=b-2".toList, "CATEGORIES=x".toList]) =
    [["PKGNAME=a-1".toList], ["PKGNAME=b-2".toList, "CATEGORIES=x".toList]] := by decide

/-- **Typed extraction of every scalar field**: for every block and every key, the value the
    deserialiser hands to a field — `PKGNAME`, `PKG_LOCATION`, the nine optional strings, and the
    text later split into `ALL_DEPENDS` / `SCAN_DEPENDS` / `MULTI_VERSION` items — is the
    trimmed value of the LAST line of that block whose trimmed key is that key; lines of other
    blocks never contribute (a block is parsed from its own lines only, `C16_one_per_block`). -/
theorem C16_field_is_last_line_of_block (blk : List Str) (key : String) :
    (keyValues blk).get key = S.scalar blk key :=
  kv_get_eq_scalar blk key

/-- **List fields** (`ALL_DEPENDS`, `SCAN_DEPENDS`, `MULTI_VERSION`): the items are exactly the
    maximal blank-free runs of the field's value, in order — the value is a blank gap, an item, a
    gap, an item, …, each item non-empty, blank-free and followed by the end or a blank. -/
theorem C16_list_items (v : Str) : Words v (splitWhitespace v) :=
  splitWhitespace_words v

/-- … and that description determines the item list: any list that fits it is the one returned -/
theorem C16_list_items_unique (v : Str) (ws : List Str) (h : Words v ws) : ws = splitWhitespace v :=
  Words_unique v ws _ h (splitWhitespace_words v)

/-- non-vacuity: two items between three gaps -/
example : splitWhitespace " a  bc\t".toList = ["a".toList, "bc".toList] := by decide

/-- "trimmed": the key and the value of a `KEY=VALUE` line lose exactly their leading and
    trailing blanks — the text in between is kept as is and neither starts nor ends with a blank -/
theorem C16_trim (s : Str) :
    ∃ g1 g2, s = g1 ++ trim s ++ g2 ∧ (∀ c ∈ g1, isWhite c = true) ∧ (∀ c ∈ g2, isWhite c = true) ∧
      (trim s).head?.map isWhite ≠ some true ∧ (trim s).getLast?.map isWhite ≠ some true :=
  trim_spec s
