/-
Props/C17.lean — No input makes a parser or matcher panic or hang.

What a proof can carry here (DESIGN §4 C17): every model function is TOTAL — Lean
accepted its termination (structural, or `termination_by` with a proved measure for
`M.tokens` and `M.altMatch`) — and panics are an explicit outcome of the model
(`none` for SummaryValue::push / get_s / get_i / get_a).  The theorems below say no
API-reachable state reaches such an outcome, and collect the range facts the slice
expressions of the code rely on.  The tie to the source is (a) the panic-site
inventory (`panic_inventory.json`, checked against the current source on every run)
and (b) fuzzing every entry point of every cluster under catch_unwind with a 2 s
limit per call.
-/
import PkgsrcVerif.Lemmas.Summary
import PkgsrcVerif.Lemmas.DeweyIdx
import PkgsrcVerif.Lemmas.StreamRange
import PkgsrcVerif.Props.C02
import PkgsrcVerif.Props.C04
open M L

/-- a call of the public Summary API: `set_*` stores a value of the variable's own kind,
    `push_*` exists only for the six multi-line variables -/
inductive ApiCall
  | set (v : Var) (x : Value)
  | push (v : Var) (item : Bytes)

def ApiCall.Typed : ApiCall → Prop
  | .set v x => valueKind x = v.kind
  | .push v _ => v.kind = .arr

/-- run a call sequence; `none` = a `panic!` site was reached -/
def applyApi (s : Summary) : List ApiCall → Option Summary
  | [] => some s
  | .set v x :: cs => applyApi (s.set v x) cs
  | .push v item :: cs => (s.push v item).bind (applyApi · cs)

/-- Type invariant, for every reachable state: whatever sequence of setters and pushers is
    called, no push reaches `panic!("pushing only supported on A()")`, and every stored
    value has the constructor its variable demands. -/
theorem C17_summary_type_invariant (calls : List ApiCall) (h : ∀ c ∈ calls, c.Typed)
    (s : Summary) (hs : WellTyped s) :
    ∃ s', applyApi s calls = some s' ∧ WellTyped s' := by
  induction calls generalizing s with
  | nil => exact ⟨s, rfl, hs⟩
  | cons c cs ih =>
    have hc := h c (by simp)
    have hcs : ∀ c ∈ cs, c.Typed := fun c hc => h c (by simp [hc])
    cases c with
    | set v x =>
      simp only [applyApi]
      exact ih hcs _ (wellTyped_set s v x hs hc)
    | push v item =>
      obtain ⟨s1, h1, hw⟩ := push_ok s v item hs hc
      simp only [applyApi, h1, Option.bind_some]
      exact ih hcs _ hw

/-- … hence no getter reaches `panic!("internal error")`: on a well-typed state each of the 23
    getters returns normally -/
theorem C17_getters_total (s : Summary) (hs : WellTyped s) (v : Var) :
    (v.kind = .str → (s.getS v).isSome = true) ∧
    (v.kind = .int → (s.getI v).isSome = true) ∧
    (v.kind = .arr → (s.getA v).isSome = true) := by
  have hk := (wellTyped_iff s).mp hs v
  refine ⟨?_, ?_, ?_⟩ <;> intro hv <;>
    (cases hx : s v with
     | none => simp [Summary.getS, Summary.getI, Summary.getA, hx]
     | some x =>
       have := hk x hx
       cases x <;> simp_all [Summary.getS, Summary.getI, Summary.getA, valueKind])

/-- the line parser only ever performs API-typed calls: parsing any text keeps the state well
    typed (so the `unreachable` branch of the model's `parseLine` is indeed never taken) -/
theorem C17_parse_keeps_types (s : Summary) (hs : WellTyped s) (line : Bytes) (s' : Summary)
    (h : parseLine s line = .ok s') : WellTyped s' := by
  unfold parseLine at h
  split at h
  · cases h
  · split at h
    · cases h
    · rename_i v hv
      split at h
      · rename_i hk; injection h with h; subst h
        exact wellTyped_set s v _ hs (by simp [valueKind, hk])
      · rename_i hk
        obtain ⟨s1, h1, hw⟩ := push_ok s v ‹_› hs hk
        simp only [h1] at h
        injection h with h; subst h; exact hw
      · rename_i hk
        split at h
        · injection h with h; subst h
          exact wellTyped_set s v _ hs (by simp [valueKind, hk])
        · cases h

/-- no hang in the brace matcher: each recursive call of alternate_match / Pattern::matches
    works on a pattern with strictly fewer '{' -/
theorem C17_alternate_terminates (p first last : Str) (alts : List Str) (m : Str)
    (h : splitLastBrace p = some (first, alts, last)) (hm : m ∈ alts) :
    countOpen (first ++ m ++ last) < countOpen p :=
  C04_step_decreases p first last alts m h hm

/-- every slice Dewey::new takes has start < end ≤ len + 1 … -/
theorem C17_dewey_slices_in_range (p : Str) :
    ∀ t ∈ scanOps p 0, t.1 < t.2.1 ∧ t.2.1 ≤ p.length + 1 := by
  intro t ht
  have := C02_slices_in_range p 0 t ht
  omega

/-- the saturating integer parse never fails: a digit run of any length has a value
    (the defect fixed in cef5d24 unwrapped a failing parse here) -/
theorem C17_digit_runs_total (ds : Str) : i64Min ≤ satI64 (digitsVal ds) ∧ satI64 (digitsVal ds) ≤ i64Max := by
  unfold satI64
  split
  · constructor
    · simp only [i64Min]; omega
    · assumption
  · simp [i64Min, i64Max]

/-- non-vacuity: a 40-call history mixing sets, overwrites and pushes is API-typed -/
example : ∀ c ∈ [ApiCall.set .comment (.s []), .push .depends [], .set .depends (.a []), .push .depends [1],
    .set .fileSize (.i (-1)), .set .comment (.s [1])], c.Typed := by
  intro c hc
  simp only [List.mem_cons, List.mem_nil_iff, or_false] at hc
  rcases hc with rfl | rfl | rfl | rfl | rfl | rfl <;> simp [ApiCall.Typed, valueKind, Var.kind]

/-! ### the byte-indexed loop of `DeweyVersion::new` -/

/-- **`DeweyVersion::new` never slices a `&str` off a character boundary, never unwraps an
    empty iterator, and stops.**  The code keeps a BYTE index into the version text and advances
    it by byte counts (`numstr.len()`, 1, 2, 5, 4, 3, 2, 2, `c.len_utf8()`) after testing the
    modifiers on raw bytes; `&s[idx..]` panics unless `idx` is a character boundary within the
    string.  For EVERY Unicode string — multi-byte characters anywhere, modifier words cut short
    by the end of the text, non-ASCII characters right after a partial modifier — the
    byte-indexed model `M.tokensIdx` (where each of those panics is the outcome `none`) returns
    within `s.len() + 1` iterations, without a panic, the very token list of the
    character-level model `M.tokens` that the correspondence check ties to the code and that
    C01–C03/C18 reason about. -/
theorem C17_dewey_tokeniser_index_safe (s : Str) :
    tokensIdx s (bytesLen s + 1) 0 = some (tokens s) := by
  have hlen : s.length ≤ bytesLen s := by
    induction s with
    | nil => simp [bytesLen]
    | cons c s ih => simp only [List.length_cons, bytesLen]; have := utf8Len_pos c; omega
  have := tokensIdx_from s.length s [] (bytesLen s + 1) (Nat.le_refl _) (by omega)
  simpa [bytesLen] using this

/-- the same from any character boundary: wherever the loop stands after consuming a prefix,
    the slice it takes is exactly the remaining text (no panic) -/
theorem C17_dewey_slice_on_boundary (pre suf : Str) : sliceFrom (pre ++ suf) (bytesLen pre) = some suf :=
  sliceFrom_prefix pre suf

/-- the byte-level modifier test `s.as_bytes()[..n].eq_ignore_ascii_case(word)` (with its length
    guard) decides exactly "the first n CHARACTERS are the word's letters in either case": a
    UTF-8 lead or continuation byte never compares equal to an ASCII letter -/
theorem C17_dewey_byte_prefix_test (s w : Str) (hw : ∀ x ∈ w, 97 ≤ x.toNat ∧ x.toNat ≤ 122) :
    bytesStartCI (encode s) w = startsWithCI s w :=
  bytesStartCI_encode w hw s

/-- non-vacuity: "1.0é-αlphaNB2" (two-byte characters directly before and inside a would-be
    modifier) — and a slice taken INSIDE a character is the panic outcome of the model -/
example : tokensIdx ['1', '.', '0', 'é', '-', 'α', 'l', 'p', 'h', 'a', 'N', 'B', '2'] 20 0 =
      some (tokens ['1', '.', '0', 'é', '-', 'α', 'l', 'p', 'h', 'a', 'N', 'B', '2']) ∧
    sliceFrom ['é', 'x'] 1 = none ∧ sliceFrom ['é', 'x'] 2 = some ['x'] := by
  refine ⟨?_, by decide, by decide⟩
  have := tokensIdx_from 13 ['1', '.', '0', 'é', '-', 'α', 'l', 'p', 'h', 'a', 'N', 'B', '2'] [] 20
    (by decide) (by decide)
  simpa [bytesLen] using this

/-- **Slices taken at an ASCII delimiter are on character boundaries.**  `alternate_match` cuts
    the pattern at the byte offsets `rfind('{')`, `find('}')` (+1) and `Dewey::new` at the offsets
    of '<' / '>' (+1, +2 after an '='), `Dewey::matches`/`PkgName` at the last '-'.  A byte search
    for a one-byte character returns the byte length of the text before its occurrence; slicing
    there, and one byte further, never panics — whatever multi-byte characters precede or
    follow. -/
theorem C17_ascii_delimiter_slices (pre suf : Str) (c : Char) (hc : c.toNat < 0x80) :
    sliceFrom (pre ++ c :: suf) (bytesLen pre) = some (c :: suf) ∧
    sliceFrom (pre ++ c :: suf) (bytesLen pre + 1) = some suf := by
  refine ⟨sliceFrom_prefix pre (c :: suf), ?_⟩
  have := sliceFrom_prefix (pre ++ [c]) suf
  rw [bytesLen_append] at this
  simpa [bytesLen, utf8Len_ascii c hc] using this

/-- … and a slice taken strictly INSIDE a multi-byte character is the panic outcome, so the
    statement above is not true for free -/
example : sliceFrom ['a', 'é', 'b'] 2 = none ∧ sliceFrom ['a', 'é', 'b'] 3 = some ['b'] := by decide

/-- **The slices of `SummaryStream::write` are in range, whatever bytes arrive.**
    `&self.buf[..e.valid_up_to()]`, `&valid[..last + 2]` and `split_off(slen)`: the length of the
    valid UTF-8 prefix never exceeds the buffer, and the end of the last blank-line separator found
    in that prefix lies inside it (hence inside the buffer). -/
theorem C17_stream_slices_in_range (st : Stream) (c : Bytes) :
    (utf8 (st.buf ++ c)).1 ≤ (st.buf ++ c).length ∧
    ∀ k, lastSepEnd ((st.buf ++ c).take (utf8 (st.buf ++ c)).1) = some k →
      k ≤ (utf8 (st.buf ++ c)).1 ∧ k ≤ (st.buf ++ c).length := by
  have h1 := utf8_valid_le (st.buf ++ c)
  refine ⟨h1, fun k hk => ?_⟩
  have := lastSepEnd_le _ k hk
  rw [List.length_take] at this
  omega
