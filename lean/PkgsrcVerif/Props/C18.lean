/-
Props/C18.lean — PKGNAME decomposition is lossless and consistent across the library.
Property theorems only; helper lemmas live in Lemmas/.
-/
import PkgsrcVerif.Lemmas.PkgName
import PkgsrcVerif.Lemmas.DeweyRev
open M S L

/-- base, '-' and version rebuild the name; the version contains no '-' (split at the LAST
    dash); without any '-' the base is the whole string and the version is empty -/
theorem C18_rebuild (s : Str) :
    (pkgNameNew s).pkgname = s ∧
    (('-' ∈ s → (pkgNameNew s).pkgbase ++ '-' :: (pkgNameNew s).pkgversion = s ∧
                '-' ∉ (pkgNameNew s).pkgversion) ∧
     ('-' ∉ s → (pkgNameNew s).pkgbase = s ∧ (pkgNameNew s).pkgversion = [])) := by
  unfold pkgNameNew
  cases hr : rsplitDash s with
  | none =>
    have hn := rsplitDash_none hr
    exact ⟨rfl, fun h => absurd h hn, fun _ => ⟨rfl, rfl⟩⟩
  | some bv =>
    obtain ⟨b, v⟩ := bv
    obtain ⟨hs, hv⟩ := rsplitDash_some hr
    refine ⟨rfl, fun _ => ⟨hs.symm, hv⟩, fun h => ?_⟩
    exact absurd (by rw [hs]; simp) h

/-- for a version ending in `nb<digits>` (up to 18 digits) the reported PKGREVISION is that number -/
theorem C18_revision_suffix (base p d : Str) (hp : '-' ∉ p) (hne : d ≠ [])
    (hd : ∀ c ∈ d, isDigit c = true) (hl : d.length ≤ 18) :
    (pkgNameNew (base ++ '-' :: (p ++ 'n' :: 'b' :: d))).pkgrevision = some (digitsVal d : Int) := by
  have hv : '-' ∉ p ++ 'n' :: 'b' :: d := by
    simp only [List.mem_append, List.mem_cons, not_or]
    refine ⟨hp, by decide, by decide, ?_⟩
    intro h; have := hd _ h; revert this; decide
  have hr : rsplitDash (base ++ '-' :: (p ++ 'n' :: 'b' :: d)) = some (base, p ++ 'n' :: 'b' :: d) :=
    (rsplitDash_iff _ _ _).mpr ⟨rfl, hv⟩
  simp only [pkgNameNew, hr, rsplitNb_suffix p d hd, parseI64_digits d hne hd hl, Option.getD_some]

/-- … and it is the revision the version comparison uses: `DeweyVersion::new` scans left to
    right, no token straddles the final "nb", and a later `nb` overrides an earlier one.
    For ANY prefix `p` (further "nb"s, letters, non-ASCII, …). -/
theorem C18_revision_is_deweys (p d : Str) (hd : ∀ c ∈ d, isDigit c = true) (hl : d.length ≤ 18) :
    (deweyVersion (p ++ 'n' :: 'b' :: d)).rev = (digitsVal d : Int) := by
  simp only [deweyVersion]
  exact lastRev_suffix d hd hl _ p 0 rfl

/-- hence PkgName's PKGREVISION and the comparison's revision coincide on such names -/
theorem C18_revision_consistent (base p d : Str) (hp : '-' ∉ p) (hne : d ≠ [])
    (hd : ∀ c ∈ d, isDigit c = true) (hl : d.length ≤ 18) :
    (pkgNameNew (base ++ '-' :: (p ++ 'n' :: 'b' :: d))).pkgrevision =
      some (deweyVersion (p ++ 'n' :: 'b' :: d)).rev := by
  rw [C18_revision_suffix base p d hp hne hd hl, C18_revision_is_deweys p d hd hl]

/-- the same for a name without '-' is vacuous: its version is empty, hence no revision -/
theorem C18_no_dash_no_revision (s : Str) (h : '-' ∉ s) : (pkgNameNew s).pkgrevision = none := by
  have hr : rsplitDash s = none := by
    cases hr : rsplitDash s with
    | none => rfl
    | some bv => obtain ⟨b, v⟩ := bv; exact absurd (by rw [(rsplitDash_some hr).1]; simp) h
  simp [pkgNameNew, hr, rsplitNb]

/-- versions without "nb" report no revision -/
theorem C18_revision_none (s : Str)
    (h : ∀ a b, (pkgNameNew s).pkgversion ≠ a ++ 'n' :: 'b' :: b) :
    (pkgNameNew s).pkgrevision = none := by
  have key : ∀ v, (∀ a b, v ≠ a ++ 'n' :: 'b' :: b) → rsplitNb v = none := by
    intro v hv
    cases hr : rsplitNb v with
    | none => rfl
    | some ab => obtain ⟨a, b⟩ := ab; exact absurd (rsplitNb_some hr) (hv a b)
  unfold pkgNameNew at h ⊢
  cases hr : rsplitDash s with
  | none => simp [rsplitNb]
  | some bv =>
    obtain ⟨b, v⟩ := bv
    simp only [hr] at h
    simp only [key v h]

/-- for names with non-empty base and version the pkg_summary accessors give the same split -/
theorem C18_summary_agrees (s : Str)
    (hb : (pkgNameNew s).pkgbase ≠ []) (hv : (pkgNameNew s).pkgversion ≠ []) :
    summaryPkgbase s = some (pkgNameNew s).pkgbase ∧
    summaryPkgversion s = some (pkgNameNew s).pkgversion := by
  unfold pkgNameNew at hb hv ⊢
  unfold summaryPkgbase summaryPkgversion
  cases hr : rsplitDash s with
  | none => simp [hr] at hv
  | some bv =>
    obtain ⟨b, v⟩ := bv
    simp only [hr] at hb hv
    have h1 : b.isEmpty = false := by cases b <;> simp_all
    have h2 : v.isEmpty = false := by cases v <;> simp_all
    simp [h1, h2]

/-- the dewey matcher's own split is the same split: a matching name has the pattern's base
    as its PkgName base -/
theorem C18_matcher_split_agrees (d : Dewey) (n : Str) (h : deweyMatches d n = true) :
    (pkgNameNew n).pkgbase = d.pkgname := by
  unfold deweyMatches at h
  unfold pkgNameNew
  cases hr : rsplitDash n with
  | none => simp [hr] at h
  | some bv =>
    obtain ⟨b, v⟩ := bv
    simp only [hr] at h
    by_cases hb : (b != d.pkgname) = true
    · simp [hb] at h
    · simpa using hb

/-- non-vacuity: mktool-1.3.2nb2 meets the hypotheses of `C18_revision_suffix` -/
example : (pkgNameNew ("mktool".toList ++ '-' :: ("1.3.2".toList ++ 'n' :: 'b' :: ['2']))).pkgrevision
    = some 2 := by
  have := C18_revision_suffix "mktool".toList "1.3.2".toList ['2'] (by decide) (by decide)
    (by decide) (by decide)
  simpa [digitsVal, digitVal] using this
