/-
Props/C19.lean — PKGPATH accepts only category/package forms; both spellings give
one value; Depend is `pattern:pkgpath` with a single ':'.
Property theorems only; helper lemmas live in Lemmas/.
-/
import PkgsrcVerif.Lemmas.Path
import PkgsrcVerif.Model.Pattern
open M L

/-- Accept ⇔ component-wise `category/package` or `../../category/package` -/
theorem C19_accept_iff (s : Str) :
    (pkgPathNew s).isSome = true ↔
      (∃ a b, pcomps s = [.normal a, .normal b]) ∨
      (∃ a b, pcomps s = [.parent, .parent, .normal a, .normal b]) := by
  unfold pkgPathNew
  constructor
  · intro h
    split at h
    · rename_i a b heq; exact Or.inl ⟨a, b, heq⟩
    · rename_i a b heq; exact Or.inr ⟨a, b, heq⟩
    · cases h
  · rintro (⟨a, b, h⟩ | ⟨a, b, h⟩) <;> simp [h]

/-- the value produced for an accepted input: short path `category/package`, full path
    `../../category/package`, component-wise, with category and package ordinary names -/
theorem C19_value (s : Str) (p : PkgPath) (h : pkgPathNew s = some p) :
    ∃ a b, IsName a ∧ IsName b ∧
      pcomps p.short = [.normal a, .normal b] ∧
      pcomps p.full = [.parent, .parent, .normal a, .normal b] := by
  unfold pkgPathNew at h
  split at h
  · rename_i a b heq
    injection h with h; subst h
    have ha : IsName a := normal_is_name s a (by rw [heq]; simp)
    have hb : IsName b := normal_is_name s b (by rw [heq]; simp)
    refine ⟨a, b, ha, hb, heq, ?_⟩
    -- "../../" ++ s : the two leading ".." segments, then s's own components
    obtain ⟨c, t, rfl⟩ : ∃ c t, s = c :: t := by
      cases s with
      | nil => simp [pcomps, components, splitOn] at heq
      | cons c t => exact ⟨c, t, rfl⟩
    have hroot : (c == '/') = false := by
      cases hc : (c == '/') with
      | false => rfl
      | true => simp [pcomps, components, hc] at heq
    have hcur : ((splitOn '/' (c :: t)).head? == some ['.']) = false := by
      cases hh : ((splitOn '/' (c :: t)).head? == some ['.']) with
      | false => rfl
      | true => simp [pcomps, components, hroot, hh] at heq
    have hs := pcomps_of (c :: t) c t rfl hroot hcur
    rw [heq] at hs
    have hsp : splitOn '/' (['.', '.', '/', '.', '.', '/'] ++ (c :: t)) =
        ['.', '.'] :: ['.', '.'] :: splitOn '/' (c :: t) := by
      have e : ['.', '.', '/', '.', '.', '/'] ++ (c :: t) =
          ['.', '.'] ++ '/' :: (['.', '.'] ++ '/' :: (c :: t)) := by simp
      rw [e, splitOn_append_sep '/' ['.', '.'] _ (by decide), splitOn_append_sep '/' ['.', '.'] _ (by decide)]
    have h1 : (some ['.', '.'] == some ['.']) = false := by decide
    rw [pcomps_of (['.', '.', '/', '.', '.', '/'] ++ (c :: t)) '.' (['.', '/', '.', '.', '/'] ++ (c :: t))
      (by simp) (by decide) (by rw [hsp]; exact h1), hsp]
    have h2 : (['.', '.'] != ['.']) = true := by decide
    have h3 : (['.', '.'] == ['.', '.']) = true := by decide
    simp only [List.filter_cons, List.isEmpty_cons, Bool.not_false, Bool.true_and, h2, if_true,
      List.map_cons, segComp, h3, ← hs]
  · rename_i a b heq
    injection h with h; subst h
    have ha : IsName a := normal_is_name s a (by rw [heq]; simp)
    have hb : IsName b := normal_is_name s b (by rw [heq]; simp)
    exact ⟨a, b, ha, hb, pcomps_two a b ha hb, heq⟩
  · cases h

/-- both spellings produce equal values -/
theorem C19_spellings_equal (a b : Str) (ha : IsName a) (hb : IsName b) :
    ∃ p q, pkgPathNew (a ++ '/' :: b) = some p ∧
           pkgPathNew (['.', '.', '/', '.', '.', '/'] ++ (a ++ '/' :: b)) = some q ∧
           p.eqv q = true := by
  have h2 := pcomps_two a b ha hb
  have h4 := pcomps_four a b ha hb
  refine ⟨⟨a ++ '/' :: b, ['.', '.', '/', '.', '.', '/'] ++ (a ++ '/' :: b)⟩,
          ⟨a ++ '/' :: b, ['.', '.', '/', '.', '.', '/'] ++ (a ++ '/' :: b)⟩, ?_, ?_, ?_⟩
  · simp [pkgPathNew, h2]
  · have h4' : pcomps ('.' :: '.' :: '/' :: '.' :: '.' :: '/' :: (a ++ '/' :: b)) =
        [.parent, .parent, .normal a, .normal b] := h4
    simp [pkgPathNew, h4']
  · simp [PkgPath.eqv]

/-- re-parsing either accessor's output gives an equal value -/
theorem C19_reparse (s : Str) (p : PkgPath) (h : pkgPathNew s = some p) :
    (∃ q, pkgPathNew p.short = some q ∧ q.eqv p = true) ∧
    (∃ q, pkgPathNew p.full = some q ∧ q.eqv p = true) := by
  obtain ⟨a, b, ha, hb, hs, hf⟩ := C19_value s p h
  have h2 := pcomps_two a b ha hb
  have h4 := pcomps_four a b ha hb
  constructor
  · refine ⟨⟨p.short, ['.', '.', '/', '.', '.', '/'] ++ p.short⟩, by simp [pkgPathNew, hs], ?_⟩
    -- full of the re-parse: "../../" ++ p.short, whose components are P,P + those of p.short
    have hv := C19_value p.short ⟨p.short, ['.', '.', '/', '.', '.', '/'] ++ p.short⟩ (by simp [pkgPathNew, hs])
    obtain ⟨a', b', _, _, hs', hf'⟩ := hv
    simp only at hs' hf'
    rw [hs] at hs'
    injection hs' with e1 e2
    injection e1 with e1
    injection e2 with e2 _
    injection e2 with e2
    subst e1; subst e2
    have hf'' : pcomps ('.' :: '.' :: '/' :: '.' :: '.' :: '/' :: p.short) =
        [.parent, .parent, .normal a, .normal b] := hf'
    simp [PkgPath.eqv, hf'', hf]
  · refine ⟨⟨a ++ '/' :: b, p.full⟩, by simp [pkgPathNew, hf], ?_⟩
    simp [PkgPath.eqv, h2, hs, hf]

/-- Depend::new succeeds exactly when the argument has a single ':' and both halves are
    valid, and then exposes exactly the halves parsed on their own -/
theorem C19_depend_iff (s : Str) (d : Depend) :
    dependNew s = .ok d ↔
      ∃ a b, splitOn ':' s = [a, b] ∧ patternNew a = .ok d.pattern ∧ pkgPathNew b = some d.pkgpath := by
  unfold dependNew
  constructor
  · intro h
    split at h
    · rename_i a b heq
      cases hp : patternNew a with
      | error e => simp [hp] at h
      | ok pat =>
        cases hq : pkgPathNew b with
        | none => simp [hp, hq] at h
        | some pp =>
          simp only [hp, hq] at h
          injection h with h; subst h
          exact ⟨a, b, heq, hp, hq⟩
    · cases h
  · rintro ⟨a, b, hs, hp, hq⟩
    simp [hs, hp, hq]

/-- the three failure classes of Depend::new -/
theorem C19_depend_errors (s : Str) :
    (dependNew s = .error .invalid ↔ ¬ ∃ a b, splitOn ':' s = [a, b]) := by
  unfold dependNew
  constructor
  · intro h
    split at h
    · rename_i a b heq
      cases hp : patternNew a with
      | error e => simp [hp] at h
      | ok pat => cases hq : pkgPathNew b <;> simp [hp, hq] at h
    · rename_i hne; rintro ⟨a, b, hab⟩; exact hne a b hab
  · intro h
    split
    · rename_i a b heq; exact absurd ⟨a, b, heq⟩ h
    · rfl

/-- non-vacuity: foo/bar and ../../foo/bar are accepted and equal -/
example : ∃ p q, pkgPathNew "foo/bar".toList = some p ∧ pkgPathNew "../../foo/bar".toList = some q ∧
    p.eqv q = true :=
  C19_spellings_equal "foo".toList "bar".toList (by simp [IsName]) (by simp [IsName])
