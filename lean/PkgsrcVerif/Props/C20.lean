/-
Props/C20.lean — Package database iteration lists each installed package once, correctly
split (*partial*: the directory listing and file contents are whatever the OS returns;
the model receives them as a parameter).  Property theorems only.
-/
import PkgsrcVerif.Model.PkgDB
import PkgsrcVerif.Props.C18
open M L

/-- MetadataEntry ↔ file-name conversion is a bijection over the 14 '+' files -/
theorem C20_tables_bijective :
    (∀ e : MEntry, MEntry.fromFilename e.toFilename = some e) ∧
    (∀ (s : String) (e : MEntry), MEntry.fromFilename s = some e → s = e.toFilename) := by
  constructor
  · intro e; cases e <;> decide
  · intro s e h
    unfold MEntry.fromFilename at h
    repeat (rcases ite_some' h with ⟨hc, rfl⟩ | ⟨_, h⟩; exact eq_of_beq hc)
    cases h
where
  ite_some' {α} {c : Prop} [Decidable c] {a v : α} {r : Option α}
      (h : (if c then some a else r) = some v) : (c ∧ a = v) ∨ (¬c ∧ r = some v) := by
    by_cases hc : c
    · simp only [hc, if_true] at h; injection h with h; exact Or.inl ⟨hc, h⟩
    · simp only [hc, if_false] at h; exact Or.inr ⟨hc, h⟩

/-- the 14 file names are pairwise distinct -/
theorem C20_names_distinct : (MEntry.all.map MEntry.toFilename).Nodup := by decide

/-- Metadata::is_valid holds exactly when comment, contents and description are all non-empty -/
theorem C20_is_valid_iff (m : Metadata) :
    m.isValid = true ↔ (m.comment ≠ [] ∧ m.contents ≠ [] ∧ m.desc ≠ []) := by
  simp [Metadata.isValid, and_assoc]

/-- the iterator yields exactly the sub-directories that contain +COMMENT, +CONTENTS and
    +DESC — one item each, in listing order; plain files and incomplete directories are skipped -/
theorem C20_iter_count (listing : List (Bytes × Node)) :
    (pkgdbIter listing).length = (listing.filter fun e => isValidPkgdir e.2).length := by
  have key : ∀ {α β} (f : α → Option β) (p : α → Bool) (l : List α), (∀ x, (f x).isSome = p x) →
      (l.filterMap f).length = (l.filter p).length := by
    intro α β f p l h
    induction l with
    | nil => rfl
    | cons a l ih =>
      have ha := h a
      simp only [List.filterMap_cons, List.filter_cons]
      cases hf : f a with
      | none => rw [hf] at ha; simp at ha; simp [ha, ih]
      | some b => rw [hf] at ha; simp at ha; simp [ha, ih]
  unfold pkgdbIter
  apply key
  intro x
  obtain ⟨name, node⟩ := x
  cases node with
  | file => simp [isValidPkgdir]
  | dir fs =>
    by_cases hv : isValidPkgdir (.dir fs) = true
    · simp only [hv, Bool.not_true, Bool.false_eq_true, if_false]
      split <;> (try split) <;> rfl
    · simp [hv]

/-- a valid directory with a UTF-8 name yields pkgname = directory name, and pkgbase /
    pkgversion = the parts before / after its LAST '-' (by `C18_rebuild`) -/
theorem C20_item_split (name : Bytes) (fs : List (String × Bytes)) (p : Str)
    (hv : isValidPkgdir (.dir fs) = true) (hu : (utf8 name).2 = .complete)
    (hp : (String.fromUTF8? name.toByteArray).map String.toList = some p) :
    ∃ pkg, pkgdbIter [(name, .dir fs)] = [some pkg] ∧ pkg.pkgname = p ∧
      ('-' ∈ p → pkg.pkgbase ++ '-' :: pkg.pkgversion = p ∧ '-' ∉ pkg.pkgversion) ∧
      ('-' ∉ p → pkg.pkgbase = p ∧ pkg.pkgversion = []) := by
  refine ⟨{ pkgname := p, pkgbase := (pkgNameNew p).pkgbase, pkgversion := (pkgNameNew p).pkgversion, files := fs }, ?_, rfl, ?_, ?_⟩
  · simp [pkgdbIter, hv, hu, hp]
  · exact (C18_rebuild p).2.1
  · exact (C18_rebuild p).2.2

/-- reading a metadata entry returns that package's '+FILE' content -/
theorem C20_read (pkg : Package) (e : MEntry) (content : Bytes)
    (h : pkg.files.find? (·.1 == e.toFilename) = some (e.toFilename, content)) :
    pkg.readMetadata e = some content := by
  simp [Package.readMetadata, h]

/-- a non-numeric +SIZE_PKG / +SIZE_ALL is an error, never a panic (fixed defect F11) -/
theorem C20_size_not_a_number (m : Metadata) (v : Str) (h : parseI64? (trim v) = none) :
    m.read .sizePkg v = none ∧ m.read .sizeAll v = none := by
  simp [Metadata.read, h]

/-- non-vacuity: a database with one complete and one incomplete directory and a stray file -/
example : (pkgdbIter [("foo-1.0".toUTF8.toList, .dir [("+COMMENT", []), ("+CONTENTS", []), ("+DESC", [])]),
    ("bar-2".toUTF8.toList, .dir [("+COMMENT", [])]), ("stray".toUTF8.toList, .file)]).length = 1 := by
  rw [C20_iter_count]; decide
