/-
SourceTie.lean — the finite tables of the Rust SOURCE (translated on every run by
tools/extract_tables.py into Generated/SourceTables.lean) are the tables of the Lean model.
Every theorem is closed by kernel evaluation (`decide`), so editing one row of a table in
/repo/src breaks a proof obligation of the properties that rest on it:

  summary name tables, required-variable order   C07, C08
  metadata file-name tables                     C20
  digest name tables                            C13 (and C10–C12 through the line parser)
  PLIST command table (kind + argument rule)    C14
  dewey modifier words, weights and increments  C01 (and C17's byte-index theorem)

A table the extractor no longer recognises is `none` and its theorem holds vacuously (`check`
reports that in the evidence); the exhaustive table ops of the correspondence check remain.
-/
import PkgsrcVerif.Generated.SourceTables
import PkgsrcVerif.Spec.Dewey
import PkgsrcVerif.Model.DeweyIdx
namespace Tie
open M

/-- `impl FromStr for SummaryVariable`: every arm is a row of the model's parse table, the arm's
    literal is that variable's printed name, and all 23 variables have exactly one arm -/
theorem tie_summary_fromStr :
    Gen.summaryFromStr.all (fun t =>
      t.all (fun p => Var.ofName (asciiBytes p.1) == some p.2 && p.2.name == p.1) &&
      Var.all.all (fun v => (t.filter (fun p => p.2 == v)).length == 1) && t.length == 23) = true := by
  decide

/-- `impl Display for SummaryVariable` prints the model's names, one arm per variable -/
theorem tie_summary_display :
    Gen.summaryDisplay.all (fun t =>
      t.all (fun p => p.1.name == p.2) &&
      Var.all.all (fun v => (t.filter (fun p => p.1 == v)).length == 1) && t.length == 23) = true := by
  decide

/-- the presence checks of `Summary::from_str` come in the model's order of required variables -/
theorem tie_summary_required : Gen.summaryRequiredOrder.all (fun t => t == Var.required) = true := by
  decide

/-- `MetadataEntry::from_filename` / `to_filename` are the model's two tables -/
theorem tie_metadata_fromFilename :
    Gen.metadataFromFilename.all (fun t =>
      t.all (fun p => MEntry.fromFilename p.1 == some p.2 && p.2.toFilename == p.1) &&
      MEntry.all.all (fun e => (t.filter (fun p => p.2 == e)).length == 1) && t.length == 14) = true := by
  decide

theorem tie_metadata_toFilename :
    Gen.metadataToFilename.all (fun t =>
      t.all (fun p => p.1.toFilename == p.2) &&
      MEntry.all.all (fun e => (t.filter (fun p => p.1 == e)).length == 1) && t.length == 14) = true := by
  decide

/-- `impl FromStr for Digest` (on the lower-cased name) and `impl Display for Digest` -/
theorem tie_digest_fromStr :
    Gen.digestFromStr.all (fun t =>
      t.all (fun p => Digest.ofName (ascii p.1) == some p.2) &&
      Digest.all.all (fun d => (t.filter (fun p => p.2 == d)).length == 1) && t.length == 6) = true := by
  decide

theorem tie_digest_display :
    Gen.digestDisplay.all (fun t =>
      t.all (fun p => p.1.name == p.2) &&
      Digest.all.all (fun d => (t.filter (fun p => p.1 == d)).length == 1) && t.length == 6) = true := by
  decide

/-- the `@command` arms of `PlistEntry::from_bytes` — command word, entry kind and the argument
    macro used (required / optional, raw / UTF-8) — are exactly the rows of the specification's
    command table (same set, every row once) -/
theorem tie_plist_commands :
    Gen.plistCommands.all (fun t =>
      t.all (fun r => S.commandTable.contains r) && S.commandTable.all (fun r => t.contains r) &&
      t.length == S.commandTable.length) = true := by
  decide

/-- the modifier branches of `DeweyVersion::new`: word, weight pushed and bytes skipped are the
    rule's modifier table (in the same order), and each increment is the word's length -/
theorem tie_dewey_modifiers :
    Gen.deweyModifiers.all (fun t =>
      t.map (fun r => (r.1.toList, r.2.1)) == S.modTable.take 5 &&
      t.all (fun r => r.2.2 == r.1.length)) = true := by
  decide

end Tie
