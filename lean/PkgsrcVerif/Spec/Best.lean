/-
Spec/Best.lean — property C06: the best match of a candidate list is the matching
candidate that is maximal for (version under a dewey order, then byte-wise SMALLER
name); `none` when nothing matches.  Parametrised by the three-way version
comparison so that it can be instantiated with the rule's order (`S.cmp`) and with
the library's own comparison.
-/
import PkgsrcVerif.Spec.Dewey
import PkgsrcVerif.Model.Pattern
namespace S
open M (Str)

/-- three-way comparison the library itself uses (GT test, then LT test) -/
def modelCmp (w v : Str) : Ordering :=
  let a := M.deweyVersion w
  let b := M.deweyVersion v
  if M.deweyCmp a .gt b then .gt else if M.deweyCmp a .lt b then .lt else .eq

/-- version text of a name: after the last '-', "" when there is none -/
def versionOf (n : Str) : Str := (M.pkgNameNew n).pkgversion

/-- is `x` a better candidate than `y`: higher version, or same version and smaller name -/
def better (vcmp : Str → Str → Ordering) (x y : Str) : Bool :=
  match vcmp (versionOf x) (versionOf y) with
  | .gt => true
  | .lt => false
  | .eq => M.strLt x y

/-- best of a list: fold keeping the better one (left-biased on exact ties, which are
    equal strings anyway when `better` is derived from a total preorder + `strLt`) -/
def bestOf (vcmp : Str → Str → Ordering) : List Str → Option Str
  | [] => none
  | x :: rest =>
    match bestOf vcmp rest with
    | none => some x
    | some y => if better vcmp y x then some y else some x

def best (vcmp : Str → Str → Ordering) (pat : M.Pattern) (cands : List Str) : Option Str :=
  bestOf vcmp (cands.filter (M.patternMatches pat))

end S
