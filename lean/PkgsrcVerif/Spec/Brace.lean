/-
Spec/Brace.lean — csh-style brace expansion over a parse tree (property C04).
Three mutually inductive types; `render` prints a tree, `expand` is the product
over a sequence and the union over alternatives.  The recursive-descent parser is
used only by the executable oracle and is *self-checking* there: its output `t`
for an input `p` is accepted only after testing `wf t ∧ render t = p`.
-/
import PkgsrcVerif.Model.Pattern
namespace S
open M (Str)

mutual
inductive Item
  | lit (c : Char)
  | grp (a : Alts)
inductive Alts
  | one (s : Seq)
  | more (s : Seq) (rest : Alts)
inductive Seq
  | nil
  | cons (i : Item) (s : Seq)
end

mutual
def Item.render : Item → Str
  | .lit c => [c]
  | .grp a => '{' :: (a.render ++ ['}'])
def Alts.render : Alts → Str
  | .one s => s.render
  | .more s r => s.render ++ ',' :: r.render
def Seq.render : Seq → Str
  | .nil => []
  | .cons i s => i.render ++ s.render
end

-- csh expansion: product over a sequence, union over alternatives
mutual
def Item.expand : Item → List Str
  | .lit c => [[c]]
  | .grp a => a.expand
def Alts.expand : Alts → List Str
  | .one s => s.expand
  | .more s r => s.expand ++ r.expand
def Seq.expand : Seq → List Str
  | .nil => [[]]
  | .cons i s => i.expand.flatMap (fun x => s.expand.map (x ++ ·))
end

-- well-formedness: a literal is never a brace, and never ',' inside a group
mutual
def Item.wf (inGrp : Bool) : Item → Bool
  | .lit c => c != '{' && c != '}' && !(inGrp && c == ',')
  | .grp a => a.wf
def Alts.wf : Alts → Bool
  | .one s => s.wf true
  | .more s r => s.wf true && r.wf
def Seq.wf (inGrp : Bool) : Seq → Bool
  | .nil => true
  | .cons i s => i.wf inGrp && s.wf inGrp
end

mutual
def Item.groups : Item → Nat
  | .lit _ => 0
  | .grp a => a.groups + 1
def Alts.groups : Alts → Nat
  | .one s => s.groups
  | .more s r => s.groups + r.groups
def Seq.groups : Seq → Nat
  | .nil => 0
  | .cons i s => i.groups + s.groups
end

/-! ### oracle-only parser (fuelled recursive descent) -/

mutual
/-- parse a sequence up to (not including) an unmatched '}' or, inside a group, a ',' -/
def parseSeq (fuel : Nat) (inGrp : Bool) (s : Str) : Option (Seq × Str) :=
  match fuel with
  | 0 => none
  | fuel + 1 =>
    match s with
    | [] => some (.nil, [])
    | '}' :: _ => some (.nil, s)
    | '{' :: rest =>
      match parseAlts fuel rest with
      | some (a, '}' :: rest') =>
        (parseSeq fuel inGrp rest').map fun (t, r) => (.cons (.grp a) t, r)
      | _ => none
    | c :: rest =>
      if inGrp && c == ',' then some (.nil, s)
      else (parseSeq fuel inGrp rest).map fun (t, r) => (.cons (.lit c) t, r)
/-- parse `seq (',' seq)*` up to the closing '}' -/
def parseAlts (fuel : Nat) (s : Str) : Option (Alts × Str) :=
  match fuel with
  | 0 => none
  | fuel + 1 =>
    match parseSeq fuel true s with
    | some (t, ',' :: rest) => (parseAlts fuel rest).map fun (a, r) => (.more t a, r)
    | some (t, r) => some (.one t, r)
    | none => none
end

def parseTree (p : Str) : Option Seq :=
  match parseSeq (2 * p.length + 2) false p with
  | some (t, []) => some t
  | _ => none

/-- "braces properly nested", stated without a stack: deleting innermost `{…}` pairs
    (a '{', then brace-free text, then '}') eventually leaves a brace-free string -/
def stripInnermost : Str → Option Str
  | [] => none
  | '{' :: rest =>
    let inner := rest.takeWhile (fun c => c != '{' && c != '}')
    match rest.dropWhile (fun c => c != '{' && c != '}') with
    | '}' :: after => some after      -- innermost pair found: delete it
    | _ => (stripInnermost rest).map ('{' :: ·)
  | c :: rest => (stripInnermost rest).map (c :: ·)

def properlyNested (fuel : Nat) (p : Str) : Bool :=
  match fuel with
  | 0 => false
  | fuel + 1 =>
    if !p.contains '{' && !p.contains '}' then true
    else match stripInnermost p with
      | some p' => properlyNested fuel p'
      | none => false

/-- a brace-free expansion matches a name "as a pattern in its own right";
    an expansion that does not compile matches nothing -/
def expansionMatches (e n : Str) : Bool :=
  match M.patternNew e with
  | .ok pat => M.patternMatches pat n
  | .error _ => false

/-- C04: the name is matched by at least one string of the expansion -/
def altMatches (t : Seq) (n : Str) : Bool := t.expand.any (expansionMatches · n)

end S
