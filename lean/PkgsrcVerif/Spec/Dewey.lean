/-
Spec/Dewey.lean — the pkg_install dewey rule of property C01, written as data
(a modifier table) plus padded lexicographic comparison; deliberately NOT in the
shape of the code (no if-chain, no three-branch length split).
-/
import PkgsrcVerif.Model.Dewey
namespace S
open M (Str Op)

/-- modifier table of the rule: word ↦ value -/
def modTable : List (Str × Int) :=
  [ (['a', 'l', 'p', 'h', 'a'], -3), (['b', 'e', 't', 'a'], -2), (['p', 'r', 'e'], -1),
    (['r', 'c'], -1), (['p', 'l'], 0), (['.'], 0), (['_'], 0) ]

/-- alphabet rank 1..26 of an ASCII letter, case-insensitive -/
def rank (c : Char) : Int := ((M.lower c).toNat : Int) - 96

/-- a component with a flag telling whether it is a letter rank -/
abbrev TComp := Int × Bool

/-- one step of the rule at the head of `s`: components produced (tagged), revision
    set (if any), and how many characters were read -/
def step (s : Str) : List TComp × Option Int × Nat :=
  match s with
  | [] => ([], none, 0)
  | c :: rest =>
    if M.isDigit c then
      let ds := s.takeWhile M.isDigit
      ([((M.digitsVal ds : Int), false)], none, ds.length)
    else
      match modTable.find? (fun e => M.startsWithCI s e.1) with
      | some e => ([(e.2, false)], none, e.1.length)
      | none =>
        if M.startsWithCI s ['n', 'b'] then
          let ds := (s.drop 2).takeWhile M.isDigit
          ([], some (M.digitsVal ds : Int), 2 + ds.length)
        else if M.isAlpha c then ([(0, false), (rank c, true)], none, 1)
        else ([], none, 1)

/-- read a version left to right: tagged components and the revision (last `nb` wins) -/
def read (fuel : Nat) (s : Str) (rev : Int) : List TComp × Int :=
  match fuel with
  | 0 => ([], rev)
  | fuel + 1 =>
    match s with
    | [] => ([], rev)
    | _ =>
      let (cs, r, n) := step s
      let (cs', rev') := read fuel (s.drop n) (r.getD rev)
      (cs ++ cs', rev')

def version (s : Str) : List TComp × Int := read s.length s 0

def cmp3 (x y : Int) : Ordering := if x < y then .lt else if x > y then .gt else .eq

/-- position-by-position comparison, missing components read as 0, revision last -/
def padCmp (lrev rrev : Int) : List Int → List Int → Ordering
  | [], [] => cmp3 lrev rrev
  | [], b :: bs => (cmp3 0 b).then (padCmp lrev rrev [] bs)
  | a :: as, [] => (cmp3 a 0).then (padCmp lrev rrev as [])
  | a :: as, b :: bs => (cmp3 a b).then (padCmp lrev rrev as bs)

/-- operator table on a three-way result -/
def testOrd (o : Ordering) (op : Op) : Bool :=
  match op with
  | .ge => o != .lt
  | .gt => o == .gt
  | .le => o != .gt
  | .lt => o == .lt

/-- three-way comparison of two version strings under the rule -/
def cmp (w v : Str) : Ordering :=
  let a := version w
  let b := version v
  padCmp a.2 b.2 (a.1.map (·.1)) (b.1.map (·.1))

/-- the rule's verdict for `W op V` -/
def verdict (w : Str) (op : Op) (v : Str) : Bool := testOrd (cmp w v) op

/-- the code's encoding of the same components: a letter rank r is stored as r + 96
    (the ASCII code of the lower-case letter) — finding F3 -/
def encode (cs : List TComp) : List Int := cs.map fun (v, t) => if t then v + 96 else v

/-- `LetterAligned`: wherever a letter component meets a non-letter component (after
    zero padding) the non-letter value lies outside [1,122], so rank and rank+96
    order the same way against it. Outside this predicate F3 may flip a verdict. -/
def alignedAt (a b : TComp) : Bool :=
  (a.2 == b.2) || (a.2 && (b.1 < 1 || b.1 > 122)) || (b.2 && (a.1 < 1 || a.1 > 122))

def aligned : List TComp → List TComp → Bool
  | [], bs => bs.all (fun b => alignedAt (0, false) b)
  | a :: as, [] => alignedAt a (0, false) && as.all (fun a => alignedAt a (0, false))
  | a :: as, b :: bs => alignedAt a b && aligned as bs

def LetterAligned (w v : Str) : Bool := aligned (version w).1 (version v).1

/-- every digit run has at most 18 digits (the property's quantifier) -/
def digitRunsLe (k : Nat) : Str → Nat → Bool
  | [], run => run ≤ k
  | c :: rest, run => if M.isDigit c then digitRunsLe k rest (run + 1) else run ≤ k && digitRunsLe k rest 0

def InDomain (s : Str) : Bool := digitRunsLe 18 s 0

end S
