/-
Spec/DeweyPat.lean — property C02's grammar `BASE OP V (OP V)?` read with maximal
munch, and "split the name at its LAST '-'" — written as a lexer + list surgery,
not as the code's index scan.
-/
import PkgsrcVerif.Model.Dewey
namespace S
open M (Str Op)

/-- Lex a pattern into the text before the first operator and the list of
    (operator, text up to the next operator).  Maximal munch: `>=`/`<=` before `>`/`<`. -/
def lexOps : Str → Str × List (Op × Str)
  | [] => ([], [])
  | '>' :: '=' :: rest => let (t, l) := lexOps rest; ([], (Op.ge, t) :: l)
  | '<' :: '=' :: rest => let (t, l) := lexOps rest; ([], (Op.le, t) :: l)
  | '>' :: rest => let (t, l) := lexOps rest; ([], (Op.gt, t) :: l)
  | '<' :: rest => let (t, l) := lexOps rest; ([], (Op.lt, t) :: l)
  | c :: rest => let (t, l) := lexOps rest; (c :: t, l)

inductive Reject | noOps | order | tooMany
  deriving DecidableEq, Repr

def isLowerOp (o : Op) : Bool := o == .gt || o == .ge
def isUpperOp (o : Op) : Bool := o == .lt || o == .le

/-- the grammar of C02: one bound, or a lower bound followed by an upper bound -/
def parsePattern (p : Str) : Except Reject (Str × List (Op × Str)) :=
  let (base, bs) := lexOps p
  match bs with
  | [] => .error .noOps
  | [b] => .ok (base, [b])
  | [b1, b2] => if isLowerOp b1.1 && isUpperOp b2.1 then .ok (base, [b1, b2]) else .error .order
  | _ => .error .tooMany

/-- `(text before the last '-', text after it)` -/
def splitLastDash (n : Str) : Option (Str × Str) :=
  let r := n.reverse
  let ver := (r.takeWhile (· != '-')).reverse
  match r.dropWhile (· != '-') with
  | [] => none
  | _ :: pre => some (pre.reverse, ver)

/-- C02: the name's text before its last '-' equals BASE and the text after it
    satisfies every bound (bound verdicts are the library's own comparison, which
    C01 relates to the pkg_install rule) -/
def patMatches (pb : Str × List (Op × Str)) (n : Str) : Bool :=
  match splitLastDash n with
  | none => false
  | some (pre, ver) =>
    pre == pb.1 && pb.2.all fun (o, v) => M.deweyCmp (M.deweyVersion ver) o (M.deweyVersion v)

end S
