/-
Spec/DigestRef.lean — what "the digest of a file" means in properties C12/C13: the standard
algorithm (Lean reference implementations of Spec/Hashes.lean) applied to the content, for a
patch file to the content with every newline-terminated line containing `$NetBSD` removed.
-/
import PkgsrcVerif.Spec.Hashes
import PkgsrcVerif.Model.Digest
namespace S
open M (Bytes Digest)

def reference (d : Digest) : Bytes → Bytes :=
  match d with
  | .blake2s => S.Hashes.blake2s | .md5 => S.Hashes.md5 | .rmd160 => S.Hashes.rmd160
  | .sha1 => S.Hashes.sha1 | .sha256 => S.Hashes.sha256 | .sha512 => S.Hashes.sha512

/-- the statement's patch filter on the whole content: newline-terminated lines containing
    `$NetBSD` removed, a final unterminated line counting as terminated -/
def filterPatch (c : Bytes) : Bytes :=
  ((M.splitLines c).filter fun l => !M.hasNetBSD l).flatMap fun l => l ++ [10]

/-- lower-case hex digest of a file of the given kind -/
def fileDigest (d : Digest) (patch : Bool) (content : Bytes) : Bytes :=
  M.hexLower (reference d (if patch then filterPatch content else content))

end S
