/-
Spec/Distinfo.lean — distinfo files as properties C10–C12 describe them.
Classification by the statement's shell globs; recognised lines by field position;
grouping by (kind, component list) in first-appearance order; canonical layout via a
strict line grammar; lookup by the shortest recorded trailing sub-path.
-/
import PkgsrcVerif.Model.Distinfo
import PkgsrcVerif.Spec.Glob
namespace S
open M (Bytes Digest EntryType Entry)

def latin1 (b : Bytes) : List Char := b.map fun x => Char.ofNat x.toNat
def pat (s : String) : List Char := s.toList

/-- final path component (what the globs are applied to) -/
def finalComponent (path : Bytes) : Option Bytes :=
  let segs := (M.splitOn (47 : UInt8) path).filter fun s => !s.isEmpty && s != [46]
  -- a leading "." of a relative path is a component of its own but never Normal
  match segs.getLast? with
  | none => none
  | some s => if s == [46, 46] then none else some s

/-- C11: patch-* and emul-*-patch-*, except patch-local-*, *.orig, *.rej, *~ and names
    containing .tar. -/
def entryType (path : Bytes) : EntryType :=
  match finalComponent path with
  | none => .distfile
  | some s =>
    let n := latin1 s
    let m (p : String) : Bool := S.globMatches (pat p) n
    if (m "patch-*" || m "emul-*-patch-*") && !m "patch-local-*" && !m "*.orig" && !m "*.rej" && !m "*~"
        && !m "*.tar.*" then .patchfile else .distfile

/-- split on ASCII blanks (space, \t, \n, \x0C, \r), dropping empty pieces -/
def blankFields (l : Bytes) : List Bytes :=
  ((l.splitBy fun a b => M.isAsciiWhiteByte a == M.isAsciiWhiteByte b).filter
    fun g => match g.head? with | some c => !M.isAsciiWhiteByte c | none => false)

inductive Rec
  | sum (d : Digest) (name hash : Bytes)
  | size (name : Bytes) (n : Nat)
  | rcsid (line : Bytes)

def parenName (f : Bytes) : Option Bytes :=
  if f.length ≥ 2 && f.head? == some 40 && f.getLast? == some 41 then some ((f.drop 1).dropLast) else none

def supported (alg : Bytes) : Option Digest :=
  if !M.isUtf8' alg then none else
  Digest.all.find? fun d => M.lowerName alg == M.lowerName (M.ascii d.name)

/-- which lines are recognised, and as what (at least four blank-separated fields:
    algorithm or "Size", parenthesised name, anything, value) -/
def recognise (line : Bytes) : Option Rec :=
  let t := line.dropWhile M.isAsciiWhiteByte
  if t.isEmpty || t.head? == some 35 then none
  else if (M.ascii "$NetBSD: ").isPrefixOf t then some (.rcsid t)
  else
    match blankFields t with
    | alg :: nm :: _ :: val :: _ =>
      match parenName nm with
      | none => none
      | some name =>
        if !M.isUtf8' alg || !M.isUtf8' val then none
        else if alg == M.ascii "Size" then
          (M.parseU64? (latin1 val)).map fun n => .size name n
        else (supported alg).map fun d => .sum d name val
    | _ => none

structure Group where
  name : Bytes
  kind : EntryType
  sums : List (Digest × Bytes)
  size : Option Nat

def sameFile (a b : Bytes) : Bool := M.bcomps a == M.bcomps b

/-- stable grouping of the recognised lines by (kind, component list), first appearance first -/
def group (recs : List Rec) : Option Bytes × List Group :=
  recs.foldl (fun (acc : Option Bytes × List Group) r =>
    let add (name : Bytes) (f : Group → Group) (fresh : Group) : Option Bytes × List Group :=
      let k := entryType name
      if acc.2.any (fun g => g.kind == k && sameFile g.name name) then
        (acc.1, acc.2.map fun g => if g.kind == k && sameFile g.name name then f g else g)
      else (acc.1, acc.2 ++ [fresh])
    match r with
    | .rcsid l => (some l, acc.2)
    | .sum d name h => add name (fun g => { g with sums := g.sums ++ [(d, h)] })
        { name := name, kind := entryType name, sums := [(d, h)], size := none }
    | .size name n => add name (fun g => { g with size := some n })
        { name := name, kind := entryType name, sums := [], size := some n }) (none, [])

def distinfoDocument (b : Bytes) : Option Bytes × List Group :=
  group ((M.splitNl' b).filterMap recognise)

/-! ### canonical layout (C10) -/

def spaceFields (l : Bytes) : List Bytes := M.splitOn (32 : UInt8) l

def cleanName (n : Bytes) : Bool := !n.isEmpty && n.all fun c => !M.isAsciiWhiteByte c
def cleanHash (h : Bytes) : Bool := !h.isEmpty && M.isUtf8' h && h.all fun c => !M.isAsciiWhiteByte c

inductive CLine
  | sum (d : Digest) (name hash : Bytes)
  | size (name : Bytes) (n : Nat)

def strictLine (l : Bytes) : Option CLine :=
  match spaceFields l with
  | [alg, nm, eq, h] =>
    if eq != [61] then none else
    match Digest.all.find? (fun d => M.ascii d.name == alg), parenName nm with
    | some d, some name => if cleanName name && cleanHash h then some (.sum d name h) else none
    | _, _ => none
  | [sz, nm, eq, n, by_] =>
    if sz != M.ascii "Size" || eq != [61] || by_ != M.ascii "bytes" then none else
    match parenName nm, M.parseU64? (latin1 n) with
    | some name, some v => if cleanName name && M.natBytes v == n then some (.size name v) else none
    | _, _ => none
  | _ => none

def clineName : CLine → Bytes
  | .sum _ n _ => n
  | .size n _ => n

/-! A canonical file as data: the Id line, then one block per distfile (its checksum lines,
    then its Size line), then one block per patch (checksum lines only). -/

structure CBlock where
  name : Bytes
  sums : List (Digest × Bytes)
  size : Option Nat
  deriving DecidableEq

structure CFile where
  id : Bytes
  dists : List CBlock
  patches : List CBlock
  deriving DecidableEq

def CBlock.render (b : CBlock) : Bytes :=
  (b.sums.flatMap fun c => M.checksumLine c.1 b.name c.2) ++
    (match b.size with | some n => M.sizeLine b.name n | none => [])

def CFile.render (f : CFile) : Bytes :=
  f.id ++ [10, 10] ++ f.dists.flatMap CBlock.render ++ f.patches.flatMap CBlock.render

/-- a block records something, under a blank-free name, with blank-free UTF-8 hashes and a
    u64 size -/
def CBlock.wf (b : CBlock) : Bool :=
  cleanName b.name && b.sums.all (fun c => cleanHash c.2) && (!b.sums.isEmpty || b.size.isSome) &&
  (match b.size with | some n => decide (n ≤ M.u64Max) | none => true)

/-- no two names denote the same file (component-wise) -/
def distinctNames : List Bytes → Bool
  | [] => true
  | n :: rest => rest.all (fun m => !sameFile n m) && distinctNames rest

def CFile.wf (f : CFile) : Bool :=
  (f.id == M.ascii "$NetBSD$" || ((M.ascii "$NetBSD: ").isPrefixOf f.id && !f.id.contains 10)) &&
  f.dists.all (fun b => b.wf && M.entryType b.name == .distfile) &&
  f.patches.all (fun b => b.wf && M.entryType b.name == .patchfile && b.size.isNone) &&
  distinctNames (f.dists.map (·.name)) && distinctNames (f.patches.map (·.name))

/-- the Distinfo the data denotes -/
def CBlock.entry (b : CBlock) (t : EntryType) : M.Entry :=
  { filename := b.name, checksums := b.sums, size := b.size, filetype := t }

def CFile.distinfo (f : CFile) : M.Distinfo :=
  { rcsid := if f.id == M.ascii "$NetBSD$" then none else some f.id,
    distfiles := f.dists.map fun b => (b.name, b.entry .distfile),
    patchfiles := f.patches.map fun b => (b.name, b.entry .patchfile) }

/-- read a file as blocks (any grouping of consecutive strict lines by name; whether the result
    is THE canonical reading is decided by rendering it back, below) -/
def parseCanon (f : Bytes) : Option CFile :=
  match M.splitNl' f with
  | id :: _ :: rest =>
    match rest.dropLast.mapM strictLine with
    | none => none
    | some ls =>
      let blocks := (ls.splitBy fun a b => clineName a == clineName b).filterMap fun bl =>
        bl.head?.map fun l0 =>
          ({ name := clineName l0,
             sums := bl.filterMap (fun | .sum d _ h => some (d, h) | .size .. => none),
             size := (bl.filterMap (fun | .size _ n => some n | .sum .. => none)).head? } : CBlock)
      some { id := id,
             dists := blocks.filter (fun b => M.entryType b.name == .distfile),
             patches := blocks.filter (fun b => M.entryType b.name != .distfile) }
  | _ => none

/-- canonical layout: the file is the rendering of well-formed block data -/
def canonicalDistinfo (f : Bytes) : Bool :=
  match parseCanon f with
  | some cf => cf.wf && cf.render == f
  | none => false

/-! ### lookup (C12) -/

/-- trailing sub-paths of a path, shortest first, as component lists -/
def trailing (path : Bytes) : List (List (M.Comp UInt8)) :=
  let cs := M.bcomps path
  ((List.range cs.length).map fun k => cs.drop (cs.length - 1 - k))

/-- the entry recorded under the shortest trailing sub-path of `path` -/
def find (groups : List Group) (path : Bytes) : Option Group :=
  let k := entryType path
  (trailing path).findSome? fun t => groups.find? fun g => g.kind == k && M.bcomps g.name == t

end S
