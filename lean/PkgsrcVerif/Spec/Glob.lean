/-
Spec/Glob.lean — the shell-glob subset of property C05, on the RAW pattern text
(no token list): '*' any run, '?' one character, '[set]' / '[!set]' with ranges,
everything else literal; case-sensitive; whole-name match.  `**` is outside the
property's quantifier (`noDoubleStar`).
-/
import PkgsrcVerif.Model.Basic
namespace S
open M (Str)

/-- set body read left to right: `x-y` is a range when a third character follows -/
def inSet : Str → Char → Bool
  | a :: '-' :: b :: rest, c => (a.toNat ≤ c.toNat && c.toNat ≤ b.toNat) || inSet rest c
  | a :: rest, c => a == c || inSet rest c
  | [], _ => false

/-- the members of a set and the text after its closing ']': the first member may itself be
    ']'; a set needs at least one member -/
def readSetBody : Str → Option (Str × Str)
  | [] => none
  | first :: q' =>
    match q'.dropWhile (· != ']') with
    | ']' :: after => some (first :: q'.takeWhile (· != ']'), after)
    | _ => none

/-- after a '[': `(negated, set body, text after the closing ']')` -/
def readSet : Str → Option (Bool × Str × Str)
  | '!' :: q => (readSetBody q).map fun ba => (true, ba.1, ba.2)
  | q => (readSetBody q).map fun ba => (false, ba.1, ba.2)

/-- is the pattern a well-formed glob (every '[' opens a closed, non-empty set) -/
def globWF (fuel : Nat) (p : Str) : Bool :=
  match fuel with
  | 0 => false
  | fuel + 1 =>
    match p with
    | [] => true
    | '[' :: rest =>
      (match readSet rest with
       | some (_, _, after) => if after.length < rest.length then globWF fuel after else false
       | none => false)
    | _ :: rest => globWF fuel rest

def noDoubleStar : Str → Bool
  | '*' :: '*' :: _ => false
  | _ :: rest => noDoubleStar rest
  | [] => true

/-- whole-name glob match on the raw pattern text (naive backtracking) -/
def globMatch (fuel : Nat) (p n : Str) : Bool :=
  match fuel with
  | 0 => false
  | fuel + 1 =>
    match p, n with
    | [], [] => true
    | [], _ :: _ => false
    | '*' :: p', [] => globMatch fuel p' []
    | '*' :: p', c :: n' => globMatch fuel p' (c :: n') || globMatch fuel ('*' :: p') n'
    | '?' :: p', _ :: n' => globMatch fuel p' n'
    | '?' :: _, [] => false
    | '[' :: p', c :: n' =>
      (match readSet p' with
       | some (neg, body, after) => (inSet body c != neg) && globMatch fuel after n'
       | none => false)
    | '[' :: _, [] => false
    | x :: p', c :: n' => x == c && globMatch fuel p' n'
    | _ :: _, [] => false

def globMatches (p n : Str) : Bool := globMatch (p.length + n.length + 1) p n

end S
