/-
  Reference implementations of the six digest algorithms used by distinfo
  files, written directly from the published specifications:

    md5      RFC 1321
    sha1     RFC 3174 / FIPS 180-4
    sha256   FIPS 180-4
    sha512   FIPS 180-4
    rmd160   RIPEMD-160 (Dobbertin, Bosselaers, Preneel 1996)
    blake2s  RFC 7693 (32-byte digest, no key)

  Core Lean only, no imports.  All functions are total and executable;
  the `#guard`s at the end of the file check the published test vectors.
-/

namespace S.Hashes

/-! ## helpers -/

def ofString (s : String) : List UInt8 := s.toUTF8.toList

def hexDigit (n : UInt8) : Char :=
  if n < 10 then Char.ofNat (48 + n.toNat) else Char.ofNat (87 + n.toNat)

/-- lower-case hexadecimal rendering -/
def hex (b : List UInt8) : String :=
  b.foldl (fun (s : String) (x : UInt8) =>
    (s.push (hexDigit (x >>> 4))).push (hexDigit (x &&& 15))) ""

@[inline] def rotl32 (x n : UInt32) : UInt32 := (x <<< n) ||| (x >>> (32 - n))
@[inline] def rotr32 (x n : UInt32) : UInt32 := (x >>> n) ||| (x <<< (32 - n))
@[inline] def rotr64 (x n : UInt64) : UInt64 := (x >>> n) ||| (x <<< (64 - n))

def listToBytes (msg : List UInt8) : ByteArray :=
  msg.foldl (fun b x => b.push x) ByteArray.empty

/-- Merkle–Damgård strengthening shared by MD5, SHA-1, SHA-2 and RIPEMD-160:
    append 0x80, then zeros up to `blk - lenBytes` modulo `blk`, then the
    message length in *bits* as a `lenBytes`-byte integer (big- or
    little-endian). -/
def padMD (msg : List UInt8) (blk lenBytes : Nat) (bigEndian : Bool) : ByteArray := Id.run do
  let mut b := listToBytes msg
  let n := b.size
  b := b.push 0x80
  let z := (blk - (n + 1 + lenBytes) % blk) % blk
  for _ in [0:z] do
    b := b.push 0
  let bits := n * 8
  for i in [0:lenBytes] do
    let sh := if bigEndian then 8 * (lenBytes - 1 - i) else 8 * i
    b := b.push (UInt8.ofNat (bits >>> sh))
  return b

@[inline] def be32 (b : ByteArray) (i : Nat) : UInt32 :=
  ((b.get! i).toUInt32 <<< 24) ||| ((b.get! (i+1)).toUInt32 <<< 16) |||
  ((b.get! (i+2)).toUInt32 <<< 8) ||| (b.get! (i+3)).toUInt32

@[inline] def le32 (b : ByteArray) (i : Nat) : UInt32 :=
  (b.get! i).toUInt32 ||| ((b.get! (i+1)).toUInt32 <<< 8) |||
  ((b.get! (i+2)).toUInt32 <<< 16) ||| ((b.get! (i+3)).toUInt32 <<< 24)

@[inline] def be64 (b : ByteArray) (i : Nat) : UInt64 :=
  ((be32 b i).toUInt64 <<< 32) ||| (be32 b (i+4)).toUInt64

def bytesBE32 (w : UInt32) : List UInt8 :=
  [(w >>> 24).toUInt8, (w >>> 16).toUInt8, (w >>> 8).toUInt8, w.toUInt8]

def bytesLE32 (w : UInt32) : List UInt8 :=
  [w.toUInt8, (w >>> 8).toUInt8, (w >>> 16).toUInt8, (w >>> 24).toUInt8]

def bytesBE64 (w : UInt64) : List UInt8 :=
  bytesBE32 (w >>> 32).toUInt32 ++ bytesBE32 w.toUInt32

/-! ## MD5 (RFC 1321) -/

/-- T[i] = floor(2^32 * |sin (i+1)|) -/
def md5T : Array UInt32 := #[
  0xd76aa478, 0xe8c7b756, 0x242070db, 0xc1bdceee, 0xf57c0faf, 0x4787c62a, 0xa8304613, 0xfd469501,
  0x698098d8, 0x8b44f7af, 0xffff5bb1, 0x895cd7be, 0x6b901122, 0xfd987193, 0xa679438e, 0x49b40821,
  0xf61e2562, 0xc040b340, 0x265e5a51, 0xe9b6c7aa, 0xd62f105d, 0x02441453, 0xd8a1e681, 0xe7d3fbc8,
  0x21e1cde6, 0xc33707d6, 0xf4d50d87, 0x455a14ed, 0xa9e3e905, 0xfcefa3f8, 0x676f02d9, 0x8d2a4c8a,
  0xfffa3942, 0x8771f681, 0x6d9d6122, 0xfde5380c, 0xa4beea44, 0x4bdecfa9, 0xf6bb4b60, 0xbebfbc70,
  0x289b7ec6, 0xeaa127fa, 0xd4ef3085, 0x04881d05, 0xd9d4d039, 0xe6db99e5, 0x1fa27cf8, 0xc4ac5665,
  0xf4292244, 0x432aff97, 0xab9423a7, 0xfc93a039, 0x655b59c3, 0x8f0ccc92, 0xffeff47d, 0x85845dd1,
  0x6fa87e4f, 0xfe2ce6e0, 0xa3014314, 0x4e0811a1, 0xf7537e82, 0xbd3af235, 0x2ad7d2bb, 0xeb86d391]

def md5S : Array UInt32 := #[
  7, 12, 17, 22, 7, 12, 17, 22, 7, 12, 17, 22, 7, 12, 17, 22,
  5,  9, 14, 20, 5,  9, 14, 20, 5,  9, 14, 20, 5,  9, 14, 20,
  4, 11, 16, 23, 4, 11, 16, 23, 4, 11, 16, 23, 4, 11, 16, 23,
  6, 10, 15, 21, 6, 10, 15, 21, 6, 10, 15, 21, 6, 10, 15, 21]

def md5 (msg : List UInt8) : List UInt8 := Id.run do
  let p := padMD msg 64 8 false
  let mut a0 : UInt32 := 0x67452301
  let mut b0 : UInt32 := 0xefcdab89
  let mut c0 : UInt32 := 0x98badcfe
  let mut d0 : UInt32 := 0x10325476
  for blk in [0:p.size / 64] do
    let mut m : Array UInt32 := #[]
    for j in [0:16] do
      m := m.push (le32 p (blk * 64 + 4 * j))
    let mut a := a0
    let mut b := b0
    let mut c := c0
    let mut d := d0
    for i in [0:64] do
      let mut f : UInt32 := 0
      let mut g : Nat := 0
      if i < 16 then
        f := (b &&& c) ||| (~~~b &&& d)
        g := i
      else if i < 32 then
        f := (d &&& b) ||| (~~~d &&& c)
        g := (5 * i + 1) % 16
      else if i < 48 then
        f := b ^^^ c ^^^ d
        g := (3 * i + 5) % 16
      else
        f := c ^^^ (b ||| ~~~d)
        g := (7 * i) % 16
      let t := f + a + md5T[i]! + m[g]!
      a := d
      d := c
      c := b
      b := b + rotl32 t md5S[i]!
    a0 := a0 + a
    b0 := b0 + b
    c0 := c0 + c
    d0 := d0 + d
  return bytesLE32 a0 ++ bytesLE32 b0 ++ bytesLE32 c0 ++ bytesLE32 d0

/-! ## SHA-1 (RFC 3174, FIPS 180-4 §6.1) -/

def sha1 (msg : List UInt8) : List UInt8 := Id.run do
  let p := padMD msg 64 8 true
  let mut h0 : UInt32 := 0x67452301
  let mut h1 : UInt32 := 0xefcdab89
  let mut h2 : UInt32 := 0x98badcfe
  let mut h3 : UInt32 := 0x10325476
  let mut h4 : UInt32 := 0xc3d2e1f0
  for blk in [0:p.size / 64] do
    let mut w : Array UInt32 := #[]
    for j in [0:16] do
      w := w.push (be32 p (blk * 64 + 4 * j))
    for j in [16:80] do
      w := w.push (rotl32 (w[j-3]! ^^^ w[j-8]! ^^^ w[j-14]! ^^^ w[j-16]!) 1)
    let mut a := h0
    let mut b := h1
    let mut c := h2
    let mut d := h3
    let mut e := h4
    for i in [0:80] do
      let mut f : UInt32 := 0
      let mut k : UInt32 := 0
      if i < 20 then
        f := (b &&& c) ||| (~~~b &&& d)
        k := 0x5a827999
      else if i < 40 then
        f := b ^^^ c ^^^ d
        k := 0x6ed9eba1
      else if i < 60 then
        f := (b &&& c) ||| (b &&& d) ||| (c &&& d)
        k := 0x8f1bbcdc
      else
        f := b ^^^ c ^^^ d
        k := 0xca62c1d6
      let t := rotl32 a 5 + f + e + k + w[i]!
      e := d
      d := c
      c := rotl32 b 30
      b := a
      a := t
    h0 := h0 + a
    h1 := h1 + b
    h2 := h2 + c
    h3 := h3 + d
    h4 := h4 + e
  return bytesBE32 h0 ++ bytesBE32 h1 ++ bytesBE32 h2 ++ bytesBE32 h3 ++ bytesBE32 h4

/-! ## SHA-256 (FIPS 180-4 §6.2) -/

def sha256K : Array UInt32 := #[
  0x428a2f98, 0x71374491, 0xb5c0fbcf, 0xe9b5dba5, 0x3956c25b, 0x59f111f1, 0x923f82a4, 0xab1c5ed5,
  0xd807aa98, 0x12835b01, 0x243185be, 0x550c7dc3, 0x72be5d74, 0x80deb1fe, 0x9bdc06a7, 0xc19bf174,
  0xe49b69c1, 0xefbe4786, 0x0fc19dc6, 0x240ca1cc, 0x2de92c6f, 0x4a7484aa, 0x5cb0a9dc, 0x76f988da,
  0x983e5152, 0xa831c66d, 0xb00327c8, 0xbf597fc7, 0xc6e00bf3, 0xd5a79147, 0x06ca6351, 0x14292967,
  0x27b70a85, 0x2e1b2138, 0x4d2c6dfc, 0x53380d13, 0x650a7354, 0x766a0abb, 0x81c2c92e, 0x92722c85,
  0xa2bfe8a1, 0xa81a664b, 0xc24b8b70, 0xc76c51a3, 0xd192e819, 0xd6990624, 0xf40e3585, 0x106aa070,
  0x19a4c116, 0x1e376c08, 0x2748774c, 0x34b0bcb5, 0x391c0cb3, 0x4ed8aa4a, 0x5b9cca4f, 0x682e6ff3,
  0x748f82ee, 0x78a5636f, 0x84c87814, 0x8cc70208, 0x90befffa, 0xa4506ceb, 0xbef9a3f7, 0xc67178f2]

def sha256 (msg : List UInt8) : List UInt8 := Id.run do
  let p := padMD msg 64 8 true
  let mut h0 : UInt32 := 0x6a09e667
  let mut h1 : UInt32 := 0xbb67ae85
  let mut h2 : UInt32 := 0x3c6ef372
  let mut h3 : UInt32 := 0xa54ff53a
  let mut h4 : UInt32 := 0x510e527f
  let mut h5 : UInt32 := 0x9b05688c
  let mut h6 : UInt32 := 0x1f83d9ab
  let mut h7 : UInt32 := 0x5be0cd19
  for blk in [0:p.size / 64] do
    let mut w : Array UInt32 := #[]
    for j in [0:16] do
      w := w.push (be32 p (blk * 64 + 4 * j))
    for j in [16:64] do
      let x := w[j-15]!
      let y := w[j-2]!
      let s0 := rotr32 x 7 ^^^ rotr32 x 18 ^^^ (x >>> 3)
      let s1 := rotr32 y 17 ^^^ rotr32 y 19 ^^^ (y >>> 10)
      w := w.push (s1 + w[j-7]! + s0 + w[j-16]!)
    let mut a := h0
    let mut b := h1
    let mut c := h2
    let mut d := h3
    let mut e := h4
    let mut f := h5
    let mut g := h6
    let mut h := h7
    for i in [0:64] do
      let bs1 := rotr32 e 6 ^^^ rotr32 e 11 ^^^ rotr32 e 25
      let ch := (e &&& f) ^^^ (~~~e &&& g)
      let t1 := h + bs1 + ch + sha256K[i]! + w[i]!
      let bs0 := rotr32 a 2 ^^^ rotr32 a 13 ^^^ rotr32 a 22
      let maj := (a &&& b) ^^^ (a &&& c) ^^^ (b &&& c)
      let t2 := bs0 + maj
      h := g
      g := f
      f := e
      e := d + t1
      d := c
      c := b
      b := a
      a := t1 + t2
    h0 := h0 + a
    h1 := h1 + b
    h2 := h2 + c
    h3 := h3 + d
    h4 := h4 + e
    h5 := h5 + f
    h6 := h6 + g
    h7 := h7 + h
  return bytesBE32 h0 ++ bytesBE32 h1 ++ bytesBE32 h2 ++ bytesBE32 h3 ++
         bytesBE32 h4 ++ bytesBE32 h5 ++ bytesBE32 h6 ++ bytesBE32 h7

/-! ## SHA-512 (FIPS 180-4 §6.4) -/

def sha512K : Array UInt64 := #[
  0x428a2f98d728ae22, 0x7137449123ef65cd, 0xb5c0fbcfec4d3b2f, 0xe9b5dba58189dbbc,
  0x3956c25bf348b538, 0x59f111f1b605d019, 0x923f82a4af194f9b, 0xab1c5ed5da6d8118,
  0xd807aa98a3030242, 0x12835b0145706fbe, 0x243185be4ee4b28c, 0x550c7dc3d5ffb4e2,
  0x72be5d74f27b896f, 0x80deb1fe3b1696b1, 0x9bdc06a725c71235, 0xc19bf174cf692694,
  0xe49b69c19ef14ad2, 0xefbe4786384f25e3, 0x0fc19dc68b8cd5b5, 0x240ca1cc77ac9c65,
  0x2de92c6f592b0275, 0x4a7484aa6ea6e483, 0x5cb0a9dcbd41fbd4, 0x76f988da831153b5,
  0x983e5152ee66dfab, 0xa831c66d2db43210, 0xb00327c898fb213f, 0xbf597fc7beef0ee4,
  0xc6e00bf33da88fc2, 0xd5a79147930aa725, 0x06ca6351e003826f, 0x142929670a0e6e70,
  0x27b70a8546d22ffc, 0x2e1b21385c26c926, 0x4d2c6dfc5ac42aed, 0x53380d139d95b3df,
  0x650a73548baf63de, 0x766a0abb3c77b2a8, 0x81c2c92e47edaee6, 0x92722c851482353b,
  0xa2bfe8a14cf10364, 0xa81a664bbc423001, 0xc24b8b70d0f89791, 0xc76c51a30654be30,
  0xd192e819d6ef5218, 0xd69906245565a910, 0xf40e35855771202a, 0x106aa07032bbd1b8,
  0x19a4c116b8d2d0c8, 0x1e376c085141ab53, 0x2748774cdf8eeb99, 0x34b0bcb5e19b48a8,
  0x391c0cb3c5c95a63, 0x4ed8aa4ae3418acb, 0x5b9cca4f7763e373, 0x682e6ff3d6b2b8a3,
  0x748f82ee5defb2fc, 0x78a5636f43172f60, 0x84c87814a1f0ab72, 0x8cc702081a6439ec,
  0x90befffa23631e28, 0xa4506cebde82bde9, 0xbef9a3f7b2c67915, 0xc67178f2e372532b,
  0xca273eceea26619c, 0xd186b8c721c0c207, 0xeada7dd6cde0eb1e, 0xf57d4f7fee6ed178,
  0x06f067aa72176fba, 0x0a637dc5a2c898a6, 0x113f9804bef90dae, 0x1b710b35131c471b,
  0x28db77f523047d84, 0x32caab7b40c72493, 0x3c9ebe0a15c9bebc, 0x431d67c49c100d4c,
  0x4cc5d4becb3e42b6, 0x597f299cfc657e2a, 0x5fcb6fab3ad6faec, 0x6c44198c4a475817]

def sha512 (msg : List UInt8) : List UInt8 := Id.run do
  let p := padMD msg 128 16 true
  let mut h0 : UInt64 := 0x6a09e667f3bcc908
  let mut h1 : UInt64 := 0xbb67ae8584caa73b
  let mut h2 : UInt64 := 0x3c6ef372fe94f82b
  let mut h3 : UInt64 := 0xa54ff53a5f1d36f1
  let mut h4 : UInt64 := 0x510e527fade682d1
  let mut h5 : UInt64 := 0x9b05688c2b3e6c1f
  let mut h6 : UInt64 := 0x1f83d9abfb41bd6b
  let mut h7 : UInt64 := 0x5be0cd19137e2179
  for blk in [0:p.size / 128] do
    let mut w : Array UInt64 := #[]
    for j in [0:16] do
      w := w.push (be64 p (blk * 128 + 8 * j))
    for j in [16:80] do
      let x := w[j-15]!
      let y := w[j-2]!
      let s0 := rotr64 x 1 ^^^ rotr64 x 8 ^^^ (x >>> 7)
      let s1 := rotr64 y 19 ^^^ rotr64 y 61 ^^^ (y >>> 6)
      w := w.push (s1 + w[j-7]! + s0 + w[j-16]!)
    let mut a := h0
    let mut b := h1
    let mut c := h2
    let mut d := h3
    let mut e := h4
    let mut f := h5
    let mut g := h6
    let mut h := h7
    for i in [0:80] do
      let bs1 := rotr64 e 14 ^^^ rotr64 e 18 ^^^ rotr64 e 41
      let ch := (e &&& f) ^^^ (~~~e &&& g)
      let t1 := h + bs1 + ch + sha512K[i]! + w[i]!
      let bs0 := rotr64 a 28 ^^^ rotr64 a 34 ^^^ rotr64 a 39
      let maj := (a &&& b) ^^^ (a &&& c) ^^^ (b &&& c)
      let t2 := bs0 + maj
      h := g
      g := f
      f := e
      e := d + t1
      d := c
      c := b
      b := a
      a := t1 + t2
    h0 := h0 + a
    h1 := h1 + b
    h2 := h2 + c
    h3 := h3 + d
    h4 := h4 + e
    h5 := h5 + f
    h6 := h6 + g
    h7 := h7 + h
  return bytesBE64 h0 ++ bytesBE64 h1 ++ bytesBE64 h2 ++ bytesBE64 h3 ++
         bytesBE64 h4 ++ bytesBE64 h5 ++ bytesBE64 h6 ++ bytesBE64 h7

/-! ## RIPEMD-160 -/

/-- message word selection, left line -/
def rmdR : Array Nat := #[
  0, 1, 2, 3, 4, 5, 6, 7, 8, 9, 10, 11, 12, 13, 14, 15,
  7, 4, 13, 1, 10, 6, 15, 3, 12, 0, 9, 5, 2, 14, 11, 8,
  3, 10, 14, 4, 9, 15, 8, 1, 2, 7, 0, 6, 13, 11, 5, 12,
  1, 9, 11, 10, 0, 8, 12, 4, 13, 3, 7, 15, 14, 5, 6, 2,
  4, 0, 5, 9, 7, 12, 2, 10, 14, 1, 3, 8, 11, 6, 15, 13]

/-- message word selection, right line -/
def rmdR' : Array Nat := #[
  5, 14, 7, 0, 9, 2, 11, 4, 13, 6, 15, 8, 1, 10, 3, 12,
  6, 11, 3, 7, 0, 13, 5, 10, 14, 15, 8, 12, 4, 9, 1, 2,
  15, 5, 1, 3, 7, 14, 6, 9, 11, 8, 12, 2, 10, 0, 4, 13,
  8, 6, 4, 1, 3, 11, 15, 0, 5, 12, 2, 13, 9, 7, 10, 14,
  12, 15, 10, 4, 1, 5, 8, 7, 6, 2, 13, 14, 0, 3, 9, 11]

/-- rotate amounts, left line -/
def rmdS : Array UInt32 := #[
  11, 14, 15, 12, 5, 8, 7, 9, 11, 13, 14, 15, 6, 7, 9, 8,
  7, 6, 8, 13, 11, 9, 7, 15, 7, 12, 15, 9, 11, 7, 13, 12,
  11, 13, 6, 7, 14, 9, 13, 15, 14, 8, 13, 6, 5, 12, 7, 5,
  11, 12, 14, 15, 14, 15, 9, 8, 9, 14, 5, 6, 8, 6, 5, 12,
  9, 15, 5, 11, 6, 8, 13, 12, 5, 12, 13, 14, 11, 8, 5, 6]

/-- rotate amounts, right line -/
def rmdS' : Array UInt32 := #[
  8, 9, 9, 11, 13, 15, 15, 5, 7, 7, 8, 11, 14, 14, 12, 6,
  9, 13, 15, 7, 12, 8, 9, 11, 7, 7, 12, 7, 6, 15, 13, 11,
  9, 7, 15, 11, 8, 6, 6, 14, 12, 13, 5, 14, 13, 13, 7, 5,
  15, 5, 8, 11, 14, 14, 6, 14, 6, 9, 12, 9, 12, 5, 15, 8,
  8, 5, 12, 9, 12, 5, 14, 6, 8, 13, 6, 5, 15, 13, 11, 11]

def rmdK : Array UInt32 := #[0x00000000, 0x5a827999, 0x6ed9eba1, 0x8f1bbcdc, 0xa953fd4e]
def rmdK' : Array UInt32 := #[0x50a28be6, 0x5c4dd124, 0x6d703ef3, 0x7a6d76e9, 0x00000000]

/-- the five round functions, selected by `j / 16` -/
@[inline] def rmdF (rnd : Nat) (x y z : UInt32) : UInt32 :=
  if rnd == 0 then x ^^^ y ^^^ z
  else if rnd == 1 then (x &&& y) ||| (~~~x &&& z)
  else if rnd == 2 then (x ||| ~~~y) ^^^ z
  else if rnd == 3 then (x &&& z) ||| (y &&& ~~~z)
  else x ^^^ (y ||| ~~~z)

def rmd160 (msg : List UInt8) : List UInt8 := Id.run do
  let p := padMD msg 64 8 false
  let mut h0 : UInt32 := 0x67452301
  let mut h1 : UInt32 := 0xefcdab89
  let mut h2 : UInt32 := 0x98badcfe
  let mut h3 : UInt32 := 0x10325476
  let mut h4 : UInt32 := 0xc3d2e1f0
  for blk in [0:p.size / 64] do
    let mut x : Array UInt32 := #[]
    for j in [0:16] do
      x := x.push (le32 p (blk * 64 + 4 * j))
    let mut a := h0
    let mut b := h1
    let mut c := h2
    let mut d := h3
    let mut e := h4
    let mut a' := h0
    let mut b' := h1
    let mut c' := h2
    let mut d' := h3
    let mut e' := h4
    for j in [0:80] do
      let rnd := j / 16
      let t := rotl32 (a + rmdF rnd b c d + x[rmdR[j]!]! + rmdK[rnd]!) rmdS[j]! + e
      a := e
      e := d
      d := rotl32 c 10
      c := b
      b := t
      let t' := rotl32 (a' + rmdF (4 - rnd) b' c' d' + x[rmdR'[j]!]! + rmdK'[rnd]!) rmdS'[j]! + e'
      a' := e'
      e' := d'
      d' := rotl32 c' 10
      c' := b'
      b' := t'
    let t := h1 + c + d'
    h1 := h2 + d + e'
    h2 := h3 + e + a'
    h3 := h4 + a + b'
    h4 := h0 + b + c'
    h0 := t
  return bytesLE32 h0 ++ bytesLE32 h1 ++ bytesLE32 h2 ++ bytesLE32 h3 ++ bytesLE32 h4

/-! ## BLAKE2s (RFC 7693), 32-byte digest, no key -/

def blake2sIV : Array UInt32 := #[
  0x6a09e667, 0xbb67ae85, 0x3c6ef372, 0xa54ff53a, 0x510e527f, 0x9b05688c, 0x1f83d9ab, 0x5be0cd19]

def blake2Sigma : Array Nat := #[
  0, 1, 2, 3, 4, 5, 6, 7, 8, 9, 10, 11, 12, 13, 14, 15,
  14, 10, 4, 8, 9, 15, 13, 6, 1, 12, 0, 2, 11, 7, 5, 3,
  11, 8, 12, 0, 5, 2, 15, 13, 10, 14, 3, 6, 7, 1, 9, 4,
  7, 9, 3, 1, 13, 12, 11, 14, 2, 6, 5, 10, 4, 0, 15, 8,
  9, 0, 5, 7, 2, 4, 10, 15, 14, 1, 11, 12, 6, 8, 3, 13,
  2, 12, 6, 10, 0, 11, 8, 3, 4, 13, 7, 5, 15, 14, 1, 9,
  12, 5, 1, 15, 14, 13, 4, 10, 0, 7, 6, 3, 9, 2, 8, 11,
  13, 11, 7, 14, 12, 1, 3, 9, 5, 0, 15, 4, 8, 6, 2, 10,
  6, 15, 14, 9, 11, 3, 0, 8, 12, 2, 13, 7, 1, 4, 10, 5,
  10, 2, 8, 4, 7, 6, 1, 5, 15, 11, 9, 14, 3, 12, 13, 0]

/-- the mixing function G (RFC 7693 §3.1) with BLAKE2s rotation constants 16, 12, 8, 7 -/
@[inline] def blake2sG (v : Array UInt32) (a b c d : Nat) (x y : UInt32) : Array UInt32 :=
  let va := v[a]!
  let vb := v[b]!
  let vc := v[c]!
  let vd := v[d]!
  let va := va + vb + x
  let vd := rotr32 (vd ^^^ va) 16
  let vc := vc + vd
  let vb := rotr32 (vb ^^^ vc) 12
  let va := va + vb + y
  let vd := rotr32 (vd ^^^ va) 8
  let vc := vc + vd
  let vb := rotr32 (vb ^^^ vc) 7
  (((v.set! a va).set! b vb).set! c vc).set! d vd

/-- compression function F (RFC 7693 §3.2); `off` is the byte offset of the
    (zero-padded) 64-byte block in `p`, `t` the byte counter, `last` the
    final-block flag -/
def blake2sF (h : Array UInt32) (p : ByteArray) (off : Nat) (t : UInt64) (last : Bool) :
    Array UInt32 := Id.run do
  let mut m : Array UInt32 := #[]
  for j in [0:16] do
    m := m.push (le32 p (off + 4 * j))
  let mut v : Array UInt32 := h ++ blake2sIV
  v := v.set! 12 (v[12]! ^^^ t.toUInt32)
  v := v.set! 13 (v[13]! ^^^ (t >>> 32).toUInt32)
  if last then
    v := v.set! 14 (~~~ v[14]!)
  for r in [0:10] do
    let s := 16 * r
    v := blake2sG v 0 4  8 12 m[blake2Sigma[s + 0]!]!  m[blake2Sigma[s + 1]!]!
    v := blake2sG v 1 5  9 13 m[blake2Sigma[s + 2]!]!  m[blake2Sigma[s + 3]!]!
    v := blake2sG v 2 6 10 14 m[blake2Sigma[s + 4]!]!  m[blake2Sigma[s + 5]!]!
    v := blake2sG v 3 7 11 15 m[blake2Sigma[s + 6]!]!  m[blake2Sigma[s + 7]!]!
    v := blake2sG v 0 5 10 15 m[blake2Sigma[s + 8]!]!  m[blake2Sigma[s + 9]!]!
    v := blake2sG v 1 6 11 12 m[blake2Sigma[s + 10]!]! m[blake2Sigma[s + 11]!]!
    v := blake2sG v 2 7  8 13 m[blake2Sigma[s + 12]!]! m[blake2Sigma[s + 13]!]!
    v := blake2sG v 3 4  9 14 m[blake2Sigma[s + 14]!]! m[blake2Sigma[s + 15]!]!
  let mut h' : Array UInt32 := #[]
  for i in [0:8] do
    h' := h'.push (h[i]! ^^^ v[i]! ^^^ v[i + 8]!)
  return h'

def blake2s (msg : List UInt8) : List UInt8 := Id.run do
  let mut p := listToBytes msg
  let n := p.size
  -- number of blocks: at least one, the last one possibly partial (or empty)
  let nblk := if n == 0 then 1 else (n + 63) / 64
  for _ in [0:nblk * 64 - n] do
    p := p.push 0
  -- parameter block word 0: digest length 32, key length 0, fanout 1, depth 1
  let mut h := blake2sIV.set! 0 (blake2sIV[0]! ^^^ 0x01010020)
  for i in [0:nblk - 1] do
    h := blake2sF h p (64 * i) (UInt64.ofNat (64 * (i + 1))) false
  h := blake2sF h p (64 * (nblk - 1)) (UInt64.ofNat n) true
  let mut out : List UInt8 := []
  for i in [0:8] do
    out := bytesLE32 h[7 - i]! ++ out
  return out

/-! ## self-tests: published test vectors -/

def msg56 : String := "abcdbcdecdefdefgefghfghighijhijkijkljklmklmnlmnomnopnopq"
def msg112 : String :=
  "abcdefghbcdefghicdefghijdefghijkefghijklfghijklmghijklmnhijklmnoijklmnopjklmnopqklmnopqrlmnopqrsmnopqrstnopqrstu"
def msgAlnum : String := "ABCDEFGHIJKLMNOPQRSTUVWXYZabcdefghijklmnopqrstuvwxyz0123456789"
def msgDigits80 : String :=
  "12345678901234567890123456789012345678901234567890123456789012345678901234567890"

-- helpers
#guard hex [0x00, 0x0f, 0xa5, 0xff] == "000fa5ff"
#guard (padMD [] 64 8 true).size == 64
#guard (padMD (List.replicate 55 0) 64 8 true).size == 64
#guard (padMD (List.replicate 56 0) 64 8 true).size == 128
#guard (padMD (List.replicate 111 0) 128 16 true).size == 128
#guard (padMD (List.replicate 112 0) 128 16 true).size == 256

-- MD5: RFC 1321 appendix A.5
#guard (md5 []).length == 16
#guard hex (md5 (ofString "")) == "d41d8cd98f00b204e9800998ecf8427e"
#guard hex (md5 (ofString "a")) == "0cc175b9c0f1b6a831c399e269772661"
#guard hex (md5 (ofString "abc")) == "900150983cd24fb0d6963f7d28e17f72"
#guard hex (md5 (ofString "message digest")) == "f96b697d7cb7938d525a2f31aaf161d0"
#guard hex (md5 (ofString "abcdefghijklmnopqrstuvwxyz")) == "c3fcd3d76192e4007dfb496cca67e13b"
#guard hex (md5 (ofString msgAlnum)) == "d174ab98d277d9f5a5611c2c9f419d9f"
#guard hex (md5 (ofString msgDigits80)) == "57edf4a22be3c955ac49da2e2107b67a"
#guard hex (md5 (ofString msg56)) == "8215ef0796a20bcaaae116d3876c664a"

-- SHA-1: RFC 3174 §7.3 / FIPS 180 examples
#guard (sha1 []).length == 20
#guard hex (sha1 (ofString "")) == "da39a3ee5e6b4b0d3255bfef95601890afd80709"
#guard hex (sha1 (ofString "abc")) == "a9993e364706816aba3e25717850c26c9cd0d89d"
#guard hex (sha1 (ofString msg56)) == "84983e441c3bd26ebaae4aa1f95129e5e54670f1"
#guard hex (sha1 (ofString msg112)) == "a49b2446a02c645bf419f995b67091253a04a259"

-- SHA-256: FIPS 180-4 examples
#guard (sha256 []).length == 32
#guard hex (sha256 (ofString "")) ==
  "e3b0c44298fc1c149afbf4c8996fb92427ae41e4649b934ca495991b7852b855"
#guard hex (sha256 (ofString "abc")) ==
  "ba7816bf8f01cfea414140de5dae2223b00361a396177a9cb410ff61f20015ad"
#guard hex (sha256 (ofString msg56)) ==
  "248d6a61d20638b8e5c026930c3e6039a33ce45964ff2167f6ecedd419db06c1"
#guard hex (sha256 (ofString msg112)) ==
  "cf5b16a778af8380036ce59e7b0492370b249b11e8f07a51afac45037afee9d1"

-- SHA-512: FIPS 180-4 examples
#guard (sha512 []).length == 64
#guard hex (sha512 (ofString "")) ==
  "cf83e1357eefb8bdf1542850d66d8007d620e4050b5715dc83f4a921d36ce9ce" ++
  "47d0d13c5d85f2b0ff8318d2877eec2f63b931bd47417a81a538327af927da3e"
#guard hex (sha512 (ofString "abc")) ==
  "ddaf35a193617abacc417349ae20413112e6fa4e89a97ea20a9eeee64b55d39a" ++
  "2192992a274fc1a836ba3c23a3feebbd454d4423643ce80e2a9ac94fa54ca49f"
#guard hex (sha512 (ofString msg112)) ==
  "8e959b75dae313da8cf4f72814fc143f8f7779c6eb9f7fa17299aeadb6889018" ++
  "501d289e4900f7e4331b99dec4b5433ac7d329eeb6dd26545e96e55b874be909"

-- RIPEMD-160: test vectors from the RIPEMD-160 paper / home page
#guard (rmd160 []).length == 20
#guard hex (rmd160 (ofString "")) == "9c1185a5c5e9fc54612808977ee8f548b2258d31"
#guard hex (rmd160 (ofString "a")) == "0bdc9d2d256b3ee9daae347be6f4dc835a467ffe"
#guard hex (rmd160 (ofString "abc")) == "8eb208f7e05d987a9b044a8e98c6b087f15a0bfc"
#guard hex (rmd160 (ofString "message digest")) == "5d0689ef49d2fae572b881b123a85ffa21595f36"
#guard hex (rmd160 (ofString "abcdefghijklmnopqrstuvwxyz")) ==
  "f71c27109c692c1b56bbdceb5b9d2865b3708dbc"
#guard hex (rmd160 (ofString msg56)) == "12a053384a9c0c88e405a06c27dcf49ada62eb2b"
#guard hex (rmd160 (ofString msgAlnum)) == "b0e20b6e3116640286ed3a87a5713079b21f5189"
#guard hex (rmd160 (ofString msgDigits80)) == "9b752e45573d4b39f4dbd3323cab82bf63326bfb"

-- BLAKE2s: RFC 7693 appendix B ("abc"), and the empty-input digest
#guard (blake2s []).length == 32
#guard hex (blake2s (ofString "")) ==
  "69217a3079908094e11121d042354a7c1f55b6482ca1a51e1b250dfd1ed0eef9"
#guard hex (blake2s (ofString "abc")) ==
  "508c5e8c327c14e2e1a72ba34eeb452f37458b209ed63a294d999b4c86675982"

-- Cross-checks against the OpenSSL / Python-hashlib reference implementations
-- at the padding and block boundaries (55, 64, 65, 119, 128, 200 bytes of 'a')
-- and, for BLAKE2s, messages longer than one block.
def rep (n : Nat) : List UInt8 := List.replicate n 0x61

#guard hex (md5 (rep 55)) == "ef1772b6dff9a122358552954ad0df65"
#guard hex (md5 (rep 64)) == "014842d480b571495a4a0363793f7367"
#guard hex (md5 (rep 119)) == "8a7bd0732ed6a28ce75f6dabc90e1613"
#guard hex (md5 (rep 200)) == "887f30b43b2867f4a9accceee7d16e6c"
#guard hex (sha1 (rep 55)) == "c1c8bbdc22796e28c0e15163d20899b65621d65a"
#guard hex (sha1 (rep 64)) == "0098ba824b5c16427bd7a1122a5a442a25ec644d"
#guard hex (sha1 (rep 119)) == "ee971065aaa017e0632a8ca6c77bb3bf8b1dfc56"
#guard hex (sha1 (rep 200)) == "e61cfffe0d9195a525fc6cf06ca2d77119c24a40"
#guard hex (sha256 (rep 55)) ==
  "9f4390f8d30c2dd92ec9f095b65e2b9ae9b0a925a5258e241c9f1e910f734318"
#guard hex (sha256 (rep 64)) ==
  "ffe054fe7ae0cb6dc65c3af9b61d5209f439851db43d0ba5997337df154668eb"
#guard hex (sha256 (rep 119)) ==
  "31eba51c313a5c08226adf18d4a359cfdfd8d2e816b13f4af952f7ea6584dcfb"
#guard hex (sha256 (rep 200)) ==
  "c2a908d98f5df987ade41b5fce213067efbcc21ef2240212a41e54b5e7c28ae5"
#guard hex (sha512 (rep 55)) ==
  "b0220c772cbf6c1822e2cb38a437d0e1d58772417a4bbb21c961364f8b6143e0" ++
  "5aa6316dca8d1d7b19e16448419076395f6086cb55101fbd6d5497b148e1745f"
#guard hex (sha512 (rep 64)) ==
  "01d35c10c6c38c2dcf48f7eebb3235fb5ad74a65ec4cd016e2354c637a8fb49b" ++
  "695ef3c1d6f7ae4cd74d78cc9c9bcac9d4f23a73019998a7f73038a5c9b2dbde"
#guard hex (sha512 (rep 119)) ==
  "130396a75cb483f2eee8c56d8a668bb3d2641f5243212c0bee2bd33da096ad9e" ++
  "b8179fe18f9eaacf76e09fae9de4c3f14ba13341e345be05bf76c182cc3468cb"
#guard hex (sha512 (rep 200)) ==
  "4b11459c33f52a22ee8236782714c150a3b2c60994e9acee17fe68947a3e6789" ++
  "f31e7668394592da7bef827cddca88c4e6f86e4df7ed1ae6cba71f3e98faee9f"
#guard hex (rmd160 (rep 55)) == "0d8a8c9063a48576a7c97e9f95253a6e53ff6765"
#guard hex (rmd160 (rep 64)) == "9dfb7d374ad924f3f88de96291c33e9abed53e32"
#guard hex (rmd160 (rep 119)) == "23e398ff2bac815aa1bbb57ca2a669c841872919"
#guard hex (rmd160 (rep 200)) == "2a5b424394c0fce2665d4e0b077e998d2d62160a"
#guard hex (blake2s (ofString msg56)) ==
  "6f4df5116a6f332edab1d9e10ee87df6557beab6259d7663f3bcd5722c13f189"
#guard hex (blake2s (ofString msgDigits80)) ==
  "fdaedb290a0d5af9870864fec2e090200989dc9cd53a3c092129e8535e8b4f66"
#guard hex (blake2s (ofString msg112)) ==
  "358dd2ed0780d4054e76cb6f3a5bce2841e8e2f547431d4d09db21b66d941fc7"
#guard hex (blake2s (rep 64)) ==
  "651d2f5f20952eacaea2fba2f2af2bcd633e511ea2d2e4c9ae2ac0d9ffb7b252"
#guard hex (blake2s (rep 65)) ==
  "045f8ae18932119bd051ac7ba5c73db59892055fad5c32f82d79a6543d92a497"
#guard hex (blake2s (rep 128)) ==
  "3ac477e27353f9019b81694afe60c8049403784f91a58288428ea318bfa82809"
#guard hex (blake2s (rep 200)) ==
  "2b033f9f5ba9cf20671da79e492f41545e673b562603945ffed09662fd92321a"

end S.Hashes
