/-
Spec/Plist.lean — packing lists as properties C14/C15 describe them: the document is
its non-blank lines; the command table is data; the views are described by POSITION
(no "ignore next file" flag).
-/
import PkgsrcVerif.Model.Plist
namespace S
open M (Bytes PEntry PErr)

/-- pieces between '\n' (a final '\n' adds no piece) -/
def splitNl : Bytes → List Bytes
  | [] => [[]]
  | 10 :: rest => [] :: splitNl rest
  | c :: rest =>
    match splitNl rest with
    | [] => [[c]]
    | l :: ls => (c :: l) :: ls

/-- a line counts iff it contains a non-whitespace byte -/
def nonBlank (l : Bytes) : Bool := l.any (fun b => !M.isWhiteByte b)

/-- C14: the lines that yield entries -/
def plines (b : Bytes) : List Bytes := (splitNl b).filter nonBlank

inductive ArgRule | reqRaw | reqUtf8 | optUtf8 | optRaw | forbidden | option
  deriving DecidableEq, Repr

inductive CmdKind
  | cwd | exec | unexec | mode | owner | group | comment | ignore | name | pkgdir | dirrm | display
  | pkgdep | blddep | pkgcfl | option
  deriving DecidableEq, Repr

/-- the 17 supported '@' commands (three spellings of cwd): kind and argument rule -/
def commandTable : List (String × CmdKind × ArgRule) :=
  [("@cwd", .cwd, .reqRaw), ("@src", .cwd, .reqRaw), ("@cd", .cwd, .reqRaw),
   ("@exec", .exec, .reqRaw), ("@unexec", .unexec, .reqRaw), ("@option", .option, .option),
   ("@mode", .mode, .optUtf8), ("@owner", .owner, .optUtf8), ("@group", .group, .optUtf8),
   ("@comment", .comment, .optRaw), ("@ignore", .ignore, .forbidden),
   ("@name", .name, .reqUtf8), ("@pkgdep", .pkgdep, .reqUtf8), ("@blddep", .blddep, .reqUtf8),
   ("@pkgcfl", .pkgcfl, .reqUtf8), ("@pkgdir", .pkgdir, .reqRaw), ("@dirrm", .dirrm, .reqRaw),
   ("@display", .display, .reqRaw)]

def bytesOf (s : String) : Bytes := s.toList.map (fun c => UInt8.ofNat c.toNat)

def build (k : CmdKind) (arg : Option Bytes) : PEntry :=
  match k with
  | .cwd => .cwd (arg.getD []) | .exec => .exec (arg.getD []) | .unexec => .unexec (arg.getD [])
  | .mode => .mode arg | .owner => .owner arg | .group => .group arg | .comment => .comment arg
  | .ignore => .ignore | .name => .name (arg.getD []) | .pkgdir => .pkgdir (arg.getD [])
  | .dirrm => .dirrm (arg.getD []) | .display => .display (arg.getD [])
  | .pkgdep => .pkgdep (arg.getD []) | .blddep => .blddep (arg.getD []) | .pkgcfl => .pkgcfl (arg.getD [])
  | .option => .pkgoptPreserve

/-- the argument rule of a command applied to its (optional) argument -/
def applyRule (k : CmdKind) (rule : ArgRule) (arg : Option Bytes) : Except PErr PEntry :=
  match rule, arg with
  | .reqRaw, some a => .ok (build k (some a))
  | .reqRaw, none => .error .incorrect
  | .reqUtf8, some a => if M.isUtf8 a then .ok (build k (some a)) else .error .utf8
  | .reqUtf8, none => .error .incorrect
  | .optUtf8, some a => if M.isUtf8 a then .ok (build k (some a)) else .error .utf8
  | .optUtf8, none => .ok (build k none)
  | .optRaw, a => .ok (build k a)
  | .forbidden, none => .ok (build k none)
  | .forbidden, some _ => .error .incorrect
  | .option, none => .error .incorrect
  | .option, some a =>
    if !M.isUtf8 a then .error .incorrect
    else if a == bytesOf "preserve" then .ok .pkgoptPreserve else .error .unsupported

/-- look the command word up in the table and apply its rule; unknown words are errors -/
def command (word : Bytes) (arg : Option Bytes) : Except PErr PEntry :=
  match commandTable.find? (fun e => bytesOf e.1 == word) with
  | none => .error .unsupported
  | some (_, k, rule) => applyRule k rule arg

/-- C14: what one line means -/
def entry (line : Bytes) : Except PErr PEntry :=
  if line.head? != some 64 then .ok (.file line)
  else
    let word := line.takeWhile (· != 32)
    let after := (line.dropWhile (· != 32)).drop 1            -- text after the first space
    let stripped := after.dropWhile M.isWhiteByte            -- minus leading blanks
    let arg : Option Bytes := if stripped.isEmpty then none else some stripped
    command word arg

/-- parse each line on its own, in order; the first error aborts -/
def mapEntries : List Bytes → Except PErr (List PEntry)
  | [] => .ok []
  | l :: ls =>
    match entry l with
    | .error e => .error e
    | .ok x =>
      match mapEntries ls with
      | .error e => .error e
      | .ok xs => .ok (x :: xs)

/-- C14: one entry per non-blank line -/
def document (b : Bytes) : Except PErr (List PEntry) := mapEntries (plines b)

/-! ### C15: positional description of the views -/

def isFile : PEntry → Bool | .file _ => true | _ => false
def isIgnore : PEntry → Bool | .ignore => true | _ => false

def isFileAt (es : List PEntry) (j : Nat) : Bool :=
  match (es[j]? : Option PEntry) with | some e => isFile e | none => false

def isIgnoreAt (es : List PEntry) (j : Nat) : Bool :=
  match (es[j]? : Option PEntry) with | some e => isIgnore e | none => false

def cwdArg : Option PEntry → Option Bytes
  | some (.cwd d) => some d
  | _ => none

/-- index of the previous file entry before position `i` (exclusive), if any -/
def prevFile (es : List PEntry) (i : Nat) : Option Nat :=
  (List.range i).reverse.find? (isFileAt es)

/-- first position after the preceding file entry (0 at the start) -/
def windowStart (es : List PEntry) (i : Nat) : Nat :=
  match prevFile es i with
  | some j => j + 1
  | none => 0

/-- does an `@ignore` occur at a position in `[lo, i)` -/
def ignoreIn (es : List PEntry) (lo i : Nat) : Bool :=
  (List.range i).any fun j => decide (lo ≤ j) && isIgnoreAt es j

/-- the file at index `i` is kept iff no `@ignore` occurs between it and the preceding file
    entry (or the start) -/
def kept (es : List PEntry) (i : Nat) : Bool := !ignoreIn es (windowStart es i) i

/-- argument of the last `@cwd` before position `i`, empty if none yet -/
def cwdAt (es : List PEntry) (i : Nat) : Bytes :=
  ((List.range i).reverse.findSome? fun j => cwdArg es[j]?).getD []

def prefixed (es : List PEntry) (i : Nat) (f : Bytes) : Bytes :=
  let d := cwdAt es i
  (if d.getLast? == some 47 then d else d ++ [47]) ++ f

def filesSpec (es : List PEntry) : List Bytes :=
  (List.range es.length).filterMap fun i =>
    match (es[i]? : Option PEntry) with
    | some (.file f) => if kept es i then some f else none
    | _ => none

def prefixedSpec (es : List PEntry) : List Bytes :=
  (List.range es.length).filterMap fun i =>
    match (es[i]? : Option PEntry) with
    | some (.file f) => if kept es i then some (prefixed es i f) else none
    | _ => none

def cmdsSpec (kinds : PEntry → Bool) (es : List PEntry) : List PEntry :=
  (List.range es.length).filterMap fun i =>
    match (es[i]? : Option PEntry) with
    | some (.file f) => if kept es i then some (.file f) else none
    | some e => if kinds e then some e else none
    | none => none

end S
