/-
Spec/ScanIndex.lean — pbulk-index output as property C16 describes it: one record per
`PKGNAME=` line, each built only from the lines of its own block; and property C20's
directory-tree reading of a package database.
-/
import PkgsrcVerif.Model.PkgDB
namespace S
open M (Str Bytes)

def isPkgnameLine (l : Str) : Bool := "PKGNAME=".toList.isPrefixOf l

/-- blocks: the non-blank trimmed lines, cut before every line that begins `PKGNAME=` -/
def blocks (ls : List Str) : List (List Str) :=
  let ls := (ls.map M.trim).filter (!·.isEmpty)
  (ls.foldl (fun (acc : List (List Str)) l =>
    match acc with
    | [] => [[l]]
    | cur :: done => if isPkgnameLine l then [l] :: cur :: done else (cur ++ [l]) :: done) []).reverse

/-- trimmed values of the lines of a block whose trimmed key is `key`, in order -/
def valuesOf (blk : List Str) (key : String) : List Str :=
  blk.filterMap fun l =>
    if !l.contains '=' then none
    else
      let k := M.trim (l.takeWhile (· != '='))
      let v := M.trim ((l.dropWhile (· != '=')).drop 1)
      if k == key.toList then some v else none

def scalar (blk : List Str) (key : String) : Option Str := (valuesOf blk key).getLast?

def items (blk : List Str) (key : String) : List Str :=
  match scalar blk key with
  | some v => (v.splitBy fun a b => M.isWhite a == M.isWhite b).filter
      fun g => match g.head? with | some c => !M.isWhite c | none => false
  | none => []

end S
