/-
Spec/Summary.lean — pkg_summary(5) entries as the properties C07–C09 describe them,
written independently of the code's line-by-line fold: first classify every line,
then report the first fault in line order, then the first missing required variable;
values are gathered per variable from the list of all (variable, value) pairs.
-/
import PkgsrcVerif.Model.Summary
namespace S
open M (Bytes Var Value VKind Summary SumErr)

/-- the 23 pkg_summary variables in the fixed pkg_summary order, with their spelling -/
def table : List (Var × String) :=
  [(.buildDate, "BUILD_DATE"), (.categories, "CATEGORIES"), (.comment, "COMMENT"),
   (.conflicts, "CONFLICTS"), (.depends, "DEPENDS"), (.description, "DESCRIPTION"),
   (.fileCksum, "FILE_CKSUM"), (.fileName, "FILE_NAME"), (.fileSize, "FILE_SIZE"),
   (.homepage, "HOMEPAGE"), (.license, "LICENSE"), (.machineArch, "MACHINE_ARCH"),
   (.opsys, "OPSYS"), (.osVersion, "OS_VERSION"), (.pkgOptions, "PKG_OPTIONS"),
   (.pkgname, "PKGNAME"), (.pkgpath, "PKGPATH"), (.pkgtoolsVersion, "PKGTOOLS_VERSION"),
   (.prevPkgpath, "PREV_PKGPATH"), (.provides, "PROVIDES"), (.requires, "REQUIRES"),
   (.sizePkg, "SIZE_PKG"), (.supersedes, "SUPERSEDES")]

def multiLine : List Var := [.conflicts, .depends, .description, .provides, .requires, .supersedes]
def integer : List Var := [.fileSize, .sizePkg]
def required : List Var :=
  [.buildDate, .categories, .comment, .description, .machineArch, .opsys, .osVersion, .pkgname,
   .pkgpath, .pkgtoolsVersion, .sizePkg]

def lookup (key : Bytes) : Option Var :=
  (table.find? fun e => M.asciiBytes e.2 == key).map (·.1)

/-- text lines: pieces between '\n' (a final '\n' adds no line), a '\r' directly before a
    '\n' belongs to the line terminator -/
def textLines (t : Bytes) : List Bytes :=
  let rec go (cur : Bytes) : Bytes → List Bytes
    | [] => if cur.isEmpty then [] else [cur.reverse]
    | 10 :: rest =>
      let l := match cur with
        | 13 :: c => c.reverse
        | c => c.reverse
      l :: go [] rest
    | b :: rest => go (b :: cur) rest
  go [] t

inductive LineClass
  | noEq
  | unknown (key : Bytes)
  | badInt
  | ok (v : Var) (val : Bytes)

/-- a line is VAR=value: everything after the FIRST '=' is the value -/
def classify (line : Bytes) : LineClass :=
  if !line.contains 61 then .noEq
  else
    let key := line.takeWhile (· != 61)
    let val := (line.dropWhile (· != 61)).drop 1
    match lookup key with
    | none => .unknown key
    | some v =>
      if integer.contains v && (M.parseI64? (M.bytesToAsciiStr val)).isNone then .badInt else .ok v val

def firstFault : List (Bytes × LineClass) → Option SumErr
  | [] => none
  | (l, .noEq) :: _ => some (.parseLine l)
  | (_, .unknown k) :: _ => some (.parseVariable k)
  | (_, .badInt) :: _ => some .parseInt
  | (_, .ok _ _) :: rest => firstFault rest

/-- the value of a variable given all (variable, value) pairs of the text, in order -/
def valueOf (pairs : List (Var × Bytes)) (v : Var) : Option Value :=
  let mine := (pairs.filter (·.1 == v)).map (·.2)
  if mine.isEmpty then none
  else if multiLine.contains v then some (.a mine)
  else
    match mine.getLast? with
    | none => none
    | some last =>
      if integer.contains v then (M.parseI64? (M.bytesToAsciiStr last)).map .i else some (.s last)

/-- the (variable, value) pairs of the accepted lines, in line order -/
def okPairs (cls : List (Bytes × LineClass)) : List (Var × Bytes) :=
  cls.filterMap fun
    | (_, .ok v val) => some (v, val)
    | _ => none

/-- C08: accept exactly complete well-formed entries, else say why -/
def parse (t : Bytes) : Except SumErr (Var → Option Value) :=
  let cls := (textLines t).map fun l => (l, classify l)
  match firstFault cls with
  | some e => .error e
  | none =>
    let pairs := okPairs cls
    let s := valueOf pairs
    match required.find? (fun v => (s v).isNone) with
    | some v => .error (.incomplete v)
    | none => .ok s

/-- C07: the printed form depends only on the current values: one VAR=value line per value,
    variables in the fixed order -/
def print (s : Var → Option Value) : Bytes :=
  table.flatMap fun (v, name) =>
    match s v with
    | none => []
    | some (.s b) => M.asciiBytes name ++ [61] ++ b ++ [10]
    | some (.i n) => M.asciiBytes name ++ [61] ++ M.intBytes n ++ [10]
    | some (.a l) => l.flatMap fun b => M.asciiBytes name ++ [61] ++ b ++ [10]

/-- values that survive a print/parse round trip: no CR/LF inside, line lists non-empty -/
def roundTrippable (s : Var → Option Value) : Bool :=
  table.all fun (v, _) =>
    match s v with
    | none => true
    | some (.s b) => !b.contains 10 && !b.contains 13
    | some (.i _) => true
    | some (.a l) => !l.isEmpty && l.all fun b => !b.contains 10 && !b.contains 13

def varIndex (v : Var) : Nat := (table.map (·.1)).idxOf v

def okOf : LineClass → Option (Var × Bytes)
  | .ok v val => some (v, val)
  | _ => none

/-- variables in the fixed order; only multi-line variables may repeat -/
def chainOk (vars : List (Var × Bytes)) : Bool :=
  (vars.zip (vars.drop 1)).all fun (a, b) =>
    varIndex a.1 < varIndex b.1 || (a.1 == b.1 && multiLine.contains a.1)

/-- integers in canonical decimal form -/
def intsCanon (vars : List (Var × Bytes)) : Bool :=
  vars.all fun (v, val) =>
    !integer.contains v ||
      match M.parseI64? (M.bytesToAsciiStr val) with
      | some n => M.intBytes n == val
      | none => false

/-- canonical entry text: '\n'-terminated lines, no '\r', known variables in the fixed order,
    single-valued variables at most once, integers in canonical decimal form -/
def canonical (t : Bytes) : Bool :=
  (t.isEmpty || t.getLast? == some 10) && !t.contains 13 &&
  let vars := ((textLines t).map classify).filterMap okOf
  vars.length == (textLines t).length && chainOk vars && intsCanon vars

/-! ### streams (C09) -/

/-- records of a raw byte stream: pieces between "\n\n" separators, left to right;
    the piece after the last separator (possibly empty) is the unterminated remainder -/
def records (s : Bytes) : List Bytes × Bytes :=
  let ps := M.splitSep2 s
  (ps.dropLast, ps.getLast?.getD [])

/-- a record of a well-formed stream: valid UTF-8 from first to last byte, accepted by the entry
    parser, and a single block of lines — not empty, no blank line inside, no '\n' at either end
    (so that the "\n\n" after it is the only separator) -/
def goodRecord (r : Bytes) : Bool :=
  (M.utf8 r).1 == r.length && (M.utf8 r).2 == .complete &&
  (match parse r with | .ok _ => true | .error _ => false) &&
  !r.isEmpty && r.head? != some 10 && r.getLast? != some 10 && (M.lastSepEnd r).isNone

end S
