#!/bin/sh
# Build the verification framework from files on disk only (offline).
set -e
cd "$(dirname "$0")"
export CARGO_NET_OFFLINE=true
[ -f harness/Cargo.lock ] || cp /repo/Cargo.lock harness/Cargo.lock
(cd harness && cargo build --release --offline --bins 2>&1 | tail -3)
(cd lean && lake build 2>&1 | tail -3)
echo "setup done"
