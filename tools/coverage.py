#!/usr/bin/env python3
"""How much of /repo/src do the correspondence generators execute?

  tools/coverage.py [tier]         (default tier: quick)

Builds a coverage-instrumented copy of the harness (nightly toolchain, `-C instrument-coverage`,
debug profile so that small accessors are not inlined away) against a scratch worktree of /repo's
HEAD under /tmp, runs every property's generator once (seed 1), merges the profiles and writes

  coverage/REPORT.json   per source file: lines, covered lines, the uncovered lines with their text
  coverage/REPORT.txt    the same, readable

Development aid (not a registered check): it answers "which branches of the modelled code does
the differential tie never reach", i.e. where a model error could hide.  Everything under /tmp is
removed afterwards.
"""
import json, os, shutil, subprocess, sys

ROOT = os.path.dirname(os.path.dirname(os.path.abspath(__file__)))
WORK = "/tmp/pkgsrc-verif-cov"
LLVM = os.path.expanduser("~/.rustup/toolchains/nightly-x86_64-unknown-linux-gnu/lib/rustlib/x86_64-unknown-linux-gnu/bin")


def sh(cmd, **kw):
    return subprocess.run(cmd, shell=isinstance(cmd, str), capture_output=True, text=True, **kw)


def main():
    tier = sys.argv[1] if len(sys.argv) > 1 else "quick"
    sh(["git", "-C", "/repo", "worktree", "remove", "--force", WORK + "/repo"])
    shutil.rmtree(WORK, ignore_errors=True)
    os.makedirs(WORK)
    try:
        r = sh(["git", "-C", "/repo", "worktree", "add", "--detach", WORK + "/repo", "HEAD"])
        assert r.returncode == 0, r.stderr
        shutil.copytree(os.path.join(ROOT, "harness"), WORK + "/harness", ignore=shutil.ignore_patterns("target"))
        ct = open(WORK + "/harness/Cargo.toml").read().replace('"/repo"', '"%s/repo"' % WORK)
        open(WORK + "/harness/Cargo.toml", "w").write(ct)
        cfg = WORK + "/harness/.cargo/config.toml"
        c = open(cfg).read().replace('"-Aunexpected_cfgs"]', '"-Aunexpected_cfgs", "-C", "instrument-coverage"]')
        open(cfg, "w").write(c)
        r = sh("CARGO_NET_OFFLINE=true cargo +nightly build --offline --bins", cwd=WORK + "/harness")
        assert r.returncode == 0, r.stderr[-3000:]
        T = WORK + "/harness/target/debug"
        props = json.load(open(os.path.join(ROOT, "props.json")))
        bins = set()
        nops = 0
        for pid, cfgp in sorted(props.items()):
            for pt in cfgp.get("parts") or [{"bin": cfgp["bin"]}]:
                bins.add(pt["bin"])
                env = dict(os.environ, LLVM_PROFILE_FILE="%s/%s-%s-%%p.profraw" % (WORK, pid, pt["bin"]))
                rr = subprocess.run([T + "/" + pt["bin"], "gen", pid, tier, "1"], capture_output=True, env=env, cwd=WORK)
                nops += len(rr.stdout.splitlines())
        r = sh("%s/llvm-profdata merge -sparse %s/*.profraw -o %s/all.profdata" % (LLVM, WORK, WORK))
        assert r.returncode == 0, r.stderr
        objs = sorted(bins)
        cmd = [LLVM + "/llvm-cov", "export", "-format=lcov", T + "/" + objs[0]]
        for b in objs[1:]:
            cmd += ["-object", T + "/" + b]
        cmd += ["-instr-profile=" + WORK + "/all.profdata", "--ignore-filename-regex=(registry|rustc|harness)"]
        r = sh(cmd)
        cur, hit, miss = None, {}, {}
        for l in r.stdout.splitlines():
            if l.startswith("SF:"):
                cur = l[3:]
            elif l.startswith("DA:") and cur and "/repo/src/" in cur:
                ln, c = l[3:].split(",")[:2]
                (hit if c != "0" else miss).setdefault(cur, set()).add(int(ln))
        rep = {"tier": tier, "ops_executed": nops, "repo_head": sh("git -C /repo rev-parse --short HEAD").stdout.strip(), "files": {}}
        txt = []
        tot_l = tot_c = 0
        for f in sorted(set(hit) | set(miss)):
            src = open(f).read().split("\n")
            m = sorted(miss.get(f, set()) - hit.get(f, set()))
            n = len(hit.get(f, set()) | miss.get(f, set()))
            tot_l += n
            tot_c += n - len(m)
            name = f.split("/repo/src/")[1]
            rep["files"][name] = {"lines": n, "covered": n - len(m),
                                  "uncovered": [{"line": k, "text": src[k - 1].strip()[:120]} for k in m]}
            txt.append("== %s: %d of %d lines executed" % (name, n - len(m), n))
            txt += ["   %5d  %s" % (k, src[k - 1].rstrip()[:110]) for k in m]
        rep["total"] = {"lines": tot_l, "covered": tot_c}
        txt.insert(0, "source lines of /repo/src executed by the correspondence generators (tier %s, %d ops): %d of %d (%.1f%%)"
                   % (tier, nops, tot_c, tot_l, 100.0 * tot_c / max(1, tot_l)))
        os.makedirs(os.path.join(ROOT, "coverage"), exist_ok=True)
        json.dump(rep, open(os.path.join(ROOT, "coverage", "REPORT.json"), "w"), indent=1)
        open(os.path.join(ROOT, "coverage", "REPORT.txt"), "w").write("\n".join(txt) + "\n")
        print(txt[0])
    finally:
        sh(["git", "-C", "/repo", "worktree", "remove", "--force", WORK + "/repo"])
        shutil.rmtree(WORK, ignore_errors=True)


if __name__ == "__main__":
    main()
