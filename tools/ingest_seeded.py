#!/usr/bin/env python3
"""Copy confirmed seeded changes from a scratch round directory into /verif/seeded/.

  tools/ingest_seeded.py <round_dir> <suffix letters, e.g. CD> [ID ...]

<round_dir>/<ID>.out/{A,B}/ (patch.diff, demo.rs, notes.md) and <round_dir>/verify_<ID>.txt
(written by the round's verify.sh: pristine+demo passes, change+suite passes, change+demo fails).
Only changes whose verification line shows all three are ingested."""
import json, os, shutil, sys
rd, letters = sys.argv[1], sys.argv[2]
ids = sys.argv[3:] or sorted({f[7:10] for f in os.listdir(rd) if f.startswith('verify_')})
for pid in ids:
    vf = os.path.join(rd, 'verify_%s.txt' % pid)
    if not os.path.exists(vf):
        continue
    ver = {l.split()[0]: l.strip() for l in open(vf) if l.strip()}
    for v, new in zip('AB', letters):
        key = pid + v
        src = os.path.join(rd, pid + '.out', v)
        line = ver.get(key, '')
        ok = all(x in line for x in ('pristine_demo_ok=1', 'suite_ok_groups=4', 'suite_failed_groups=0', 'changed_demo_failed=1'))
        if not ok or not os.path.isfile(os.path.join(src, 'patch.diff')):
            print('skip', key, line)
            continue
        d = os.path.join('/verif/seeded', pid + new)
        os.makedirs(d, exist_ok=True)
        for f in ('patch.diff', 'demo.rs', 'notes.md'):
            shutil.copy(os.path.join(src, f), os.path.join(d, f))
        meta = {"property": pid, "round": os.path.basename(rd.rstrip('/')),
                "origin": "fresh sub-agent given only the property text and a scratch worktree of /repo (no access to /verif)",
                "needs_to_manifest": "see notes.md (written by the sub-agent)",
                "confirmed_by_me": {"how": "scratch worktree at /repo HEAD; tests/demo.rs = demo.rs; cargo test --offline",
                                    "pristine_plus_demo": "passes",
                                    "change_plus_existing_suite": "all 4 test groups ok, 0 failed",
                                    "change_plus_demo": "fails", "raw": line}}
        json.dump(meta, open(os.path.join(d, 'meta.json'), 'w'), indent=1)
        print('ingested', pid + new)
