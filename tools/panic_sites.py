#!/usr/bin/env python3
"""Extract every potential panic site (unwrap/expect/panic!/todo!/unreachable!/assert!/
index or slice expression) from /repo/src/*.rs outside test modules and verification hooks.
Output: JSON list of {file, fn, text} with whitespace-normalised text (line numbers are
deliberately not part of the key, so harmless edits elsewhere do not disturb the inventory)."""
import json, os, re, sys

SRC = sys.argv[1] if len(sys.argv) > 1 else "/repo/src"
MACROS = re.compile(r"\b(panic|todo|unreachable|unimplemented|assert|assert_eq|assert_ne)!\s*\(")
CALLS = re.compile(r"\.(unwrap|expect)\s*\(")
INDEX = re.compile(r"[A-Za-z_0-9\)\]]\s*\[[^\[\]]*\]")
FN = re.compile(r"\bfn\s+([A-Za-z_0-9]+)")

def strip_comments(src):
    src = re.sub(r"/\*.*?\*/", lambda m: "\n" * m.group(0).count("\n"), src, flags=re.S)
    out = []
    for line in src.split("\n"):
        # drop // comments (not inside strings: good enough for this code base)
        i = line.find("//")
        if i >= 0 and line[:i].count('"') % 2 == 0:
            line = line[:i]
        out.append(line)
    return out

def sites(path):
    text = open(path).read()
    # cut test modules
    m = re.search(r"^#\[cfg\(test\)\]\s*\n(\s*#\[[^\n]*\]\s*\n)*\s*mod\s+\w+", text, re.M)
    if m:
        text = text[:m.start()]
    lines = strip_comments(text)
    res, cur_fn, skip_depth, depth, in_hook = [], "<top>", None, 0, False
    pending_hook = False
    for ln in lines:
        s = ln.strip()
        if s.startswith("#[cfg(pkgsrc_verif)]"):
            pending_hook = True
            continue
        if pending_hook and s and not s.startswith("#["):
            # skip the whole item that follows (brace matched)
            in_hook = True
            hook_depth = 0
            pending_hook = False
        if in_hook:
            hook_depth += ln.count("{") - ln.count("}")
            if hook_depth <= 0 and ("{" in ln or "}" in ln or s.endswith(";")):
                in_hook = False
            continue
        m = FN.search(ln)
        if m:
            cur_fn = m.group(1)
        if s.startswith("#[") or s.startswith("#![") or s.startswith("*") or s.startswith("/*"):
            continue
        code = re.sub(r'"(?:[^"\\]|\\.)*"', '""', ln)          # blank out string literals
        code = re.sub(r"b?'(?:[^'\\]|\\.)'", "' '", code)      # and char literals
        found = []
        for m in MACROS.finditer(code):
            found.append(m.group(1) + "!")
        for m in CALLS.finditer(code):
            found.append("." + m.group(1) + "()")
        for m in INDEX.finditer(code):
            t = m.group(0)
            if "vec![" in code[max(0, m.start() - 4):m.end()]:
                continue
            found.append("index")
        if found:
            res.append({"file": os.path.basename(path), "fn": cur_fn, "text": " ".join(s.split()),
                        "kinds": sorted(set(found))})
    return res

def main():
    allsites = []
    for fn in sorted(os.listdir(SRC)):
        if fn.endswith(".rs"):
            allsites += sites(os.path.join(SRC, fn))
    json.dump(allsites, sys.stdout, indent=1)

if __name__ == "__main__":
    main()
