#!/usr/bin/env python3
"""Run the registered quick checks against behaviour-preserving refactorings under /verif/harmless/.

  tools/run_harmless.py [NAME ...]

For every harmless/<name>/patch.diff: apply it to /repo (git apply), confirm the repository's own
suite still passes, run ALL quick checks, restore /repo (git checkout -- .).  A check that reports
a VIOLATION on such a tree is a false alarm of the machinery (or the refactoring is not behaviour
preserving after all — then the replay shows the input on which behaviour changed).  Development
aid, not a registered command; never commits anything to /repo."""
import json
import os
import subprocess
import sys

ROOT = os.path.dirname(os.path.dirname(os.path.abspath(__file__)))
H = os.path.join(ROOT, "harmless")


def sh(cmd, cwd=None, timeout=7200):
    e = dict(os.environ, CARGO_NET_OFFLINE="true")
    return subprocess.run(cmd, cwd=cwd, shell=isinstance(cmd, str), capture_output=True, text=True, timeout=timeout, env=e)


def main():
    names = [a for a in sys.argv[1:] if not a.startswith("--")] or sorted(os.listdir(H))
    assert sh("git -C /repo status --porcelain --untracked-files=no").stdout.strip() == "", "/repo is not clean"
    props = sorted(json.load(open(os.path.join(ROOT, "props.json"))))
    results = {}
    rp = os.path.join(H, "RESULTS.json")
    if os.path.exists(rp):
        results = json.load(open(rp))
    for name in names:
        d = os.path.join(H, name)
        if not os.path.isfile(os.path.join(d, "patch.diff")):
            continue
        r = sh(["git", "-C", "/repo", "apply", os.path.join(d, "patch.diff")])
        if r.returncode != 0:
            results[name] = {"error": "patch does not apply: " + r.stderr.strip()}
            print(name, "PATCH-DOES-NOT-APPLY")
            continue
        try:
            t = sh("cargo test --offline 2>&1", cwd="/repo")
            res = {"suite_ok_groups": t.stdout.count("test result: ok"),
                   "suite_failed_groups": t.stdout.count("test result: FAILED"), "alarms": {}}
            for p in props:
                c = sh([os.path.join(ROOT, "check"), p, "quick"], cwd=ROOT)
                if c.returncode != 0:
                    line = [l for l in c.stdout.splitlines() if l.startswith("VIOLATION") or l.startswith("INFRA")]
                    detail = [l for l in c.stdout.splitlines() if l.startswith("detail:")]
                    res["alarms"][p] = (line[0] if line else "exit %d" % c.returncode) + " " + (detail[0] if detail else "")
            results[name] = res
            print(name, "suite", res["suite_ok_groups"], "/", res["suite_failed_groups"], "alarms:", res["alarms"] or "none")
        finally:
            sh("git -C /repo checkout -- .")
        json.dump(results, open(rp, "w"), indent=1)


if __name__ == "__main__":
    main()
