#!/usr/bin/env python3
"""Judge seeded changes and harmless refactorings IN PARALLEL, each in its own scratch worktree.

  tools/run_patches.py seeded   [--jobs N] [--all-checks] [NAME ...]
  tools/run_patches.py harmless [--jobs N] [NAME ...]

Every worker owns a worktree of /repo's HEAD under /tmp/verif-pw<i>/repo; for each patch it applies
the patch THERE (git apply), runs the checks with VERIF_REPO / VERIF_OUT pointing at the worktree
(./check builds a private copy of the harness against it), records the verdicts and restores the
worktree.  /repo itself is never touched, so the registered checks can be used on it meanwhile.
`seeded`: the property's own quick check must report a VIOLATION (with --all-checks every check is
run and the ones that fire are listed).  `harmless`: the repository's suite must pass and ALL 20
quick checks must stay quiet.  Results: seeded/RESULTS.json, harmless/RESULTS.json (merged).
Worktrees and their build output are removed at the end.  Development aid, not a registered command.
"""
import json
import os
import shutil
import subprocess
import sys
import threading
import queue

ROOT = os.path.dirname(os.path.dirname(os.path.abspath(__file__)))


def sh(cmd, cwd=None, env=None, timeout=7200):
    e = dict(os.environ, CARGO_NET_OFFLINE="true")
    if env:
        e.update(env)
    return subprocess.run(cmd, cwd=cwd, shell=isinstance(cmd, str), capture_output=True, text=True, timeout=timeout, env=e)


def run_check(pid, wdir):
    env = {"VERIF_REPO": wdir + "/repo", "VERIF_OUT": wdir + "/out"}
    c = sh([os.path.join(ROOT, "check"), pid, "quick"], cwd=ROOT, env=env)
    line = [l for l in c.stdout.splitlines() if l.startswith("VIOLATION") or l.startswith("INFRA")]
    detail = [l for l in c.stdout.splitlines() if l.startswith("detail:")]
    kind = op = ""
    if line and "replay=" in line[0]:
        rp = line[0].split("replay=")[1].split()[0]
        try:
            rj = json.load(open(rp))
            kind = rj.get("kind", "")
            op = (rj.get("ops") or [{}])[0].get("op", "")[:200]
        except Exception:
            pass
    return c.returncode, (line[0] if line else ""), (detail[0] if detail else ""), kind, op


def worker(i, mode, q, results, allchecks, props, lock):
    wdir = "/tmp/verif-pw%d" % i
    sh(["git", "-C", "/repo", "worktree", "remove", "--force", wdir + "/repo"])
    shutil.rmtree(wdir, ignore_errors=True)
    os.makedirs(wdir + "/out")
    r = sh(["git", "-C", "/repo", "worktree", "add", "--detach", wdir + "/repo", "HEAD"])
    assert r.returncode == 0, r.stderr
    try:
        while True:
            try:
                name = q.get_nowait()
            except queue.Empty:
                break
            d = os.path.join(ROOT, mode, name)
            r = sh(["git", "-C", wdir + "/repo", "apply", os.path.join(d, "patch.diff")])
            if r.returncode != 0:
                with lock:
                    results[name] = {"error": "patch does not apply: " + r.stderr.strip()[:300]}
                    print(name, "PATCH-DOES-NOT-APPLY", flush=True)
                continue
            try:
                if mode == "seeded":
                    prop = json.load(open(os.path.join(d, "meta.json")))["property"]
                    res = {"property": prop}
                    todo = [prop] + ([p for p in props if p != prop] if allchecks else [])
                    caught = []
                    for p in todo:
                        rc, line, detail, kind, op = run_check(p, wdir)
                        if rc == 1 and line.startswith("VIOLATION"):
                            caught.append(p)
                            if p == prop:
                                res.update({"violation": line, "detail": detail, "replay_kind": kind, "replay_op": op})
                        elif rc not in (0, 1):
                            res.setdefault("infra", []).append(p + ":" + line)
                    res["caught_by"] = caught
                    res["detected"] = prop in caught
                    with lock:
                        results[name] = res
                        print(name, "DETECTED" if res["detected"] else "MISSED", res.get("detail", ""), res.get("replay_kind", ""), flush=True)
                else:
                    t = sh("cargo test --offline 2>&1", cwd=wdir + "/repo")
                    res = {"suite_ok_groups": t.stdout.count("test result: ok"),
                           "suite_failed_groups": t.stdout.count("test result: FAILED"), "alarms": {}}
                    for p in props:
                        rc, line, detail, kind, op = run_check(p, wdir)
                        if rc != 0:
                            info = {"line": line, "detail": detail, "kind": kind, "op": op}
                            if line and "replay=" in line:
                                try:
                                    rj = json.load(open(line.split("replay=")[1].split()[0]))
                                    info["new_sites"] = [x.get("text") for x in rj.get("new_sites", [])][:8]
                                except Exception:
                                    pass
                            res["alarms"][p] = info
                    with lock:
                        results[name] = res
                        print(name, "suite ok=%d failed=%d" % (res["suite_ok_groups"], res["suite_failed_groups"]),
                              "ALARMS " + ",".join(sorted(res["alarms"])) if res["alarms"] else "all 20 checks quiet", flush=True)
            finally:
                sh(["git", "-C", wdir + "/repo", "checkout", "--", "."])
                sh(["git", "-C", wdir + "/repo", "clean", "-fdq", "-e", "target"])
    finally:
        sh(["git", "-C", "/repo", "worktree", "remove", "--force", wdir + "/repo"])
        shutil.rmtree(wdir, ignore_errors=True)
        h = sh("ls -d /tmp/verif-harness-* 2>/dev/null").stdout.split()
        # private harness copies of finished workers are removed by main()


def main():
    args = sys.argv[1:]
    mode = args[0]
    assert mode in ("seeded", "harmless")
    jobs = 4
    if "--jobs" in args:
        jobs = int(args[args.index("--jobs") + 1])
    allchecks = "--all-checks" in args
    skip = set()
    if "--jobs" in args:
        skip.add(args[args.index("--jobs") + 1])
    names = [a for a in args[1:] if not a.startswith("--") and a not in skip]
    base = os.path.join(ROOT, mode)
    if not names:
        names = sorted(n for n in os.listdir(base) if os.path.isfile(os.path.join(base, n, "patch.diff")))
    props = sorted(json.load(open(os.path.join(ROOT, "props.json"))))
    q = queue.Queue()
    for n in names:
        q.put(n)
    results, lock = {}, threading.Lock()
    ths = [threading.Thread(target=worker, args=(i, mode, q, results, allchecks, props, lock)) for i in range(min(jobs, len(names)))]
    for t in ths:
        t.start()
    for t in ths:
        t.join()
    sh("rm -rf /tmp/verif-harness-*")
    rp = os.path.join(base, "RESULTS.json")
    allr = json.load(open(rp)) if os.path.exists(rp) else {}
    allr.update(results)
    json.dump(allr, open(rp, "w"), indent=1, sort_keys=True)
    if mode == "seeded":
        miss = sorted(n for n, r in results.items() if not r.get("detected"))
        print("seeded changes: %d, detected: %d, missed: %s" % (len(results), len(results) - len(miss), miss))
    else:
        al = {n: sorted(r.get("alarms", {})) for n, r in results.items() if r.get("alarms")}
        print("harmless refactorings: %d, with alarms: %s" % (len(results), al))


if __name__ == "__main__":
    main()
