#!/usr/bin/env python3
"""Run the registered checks against the seeded changes under /verif/seeded/.

  tools/run_seeded.py [--all-checks] [--tests] [NAME ...]

For every seeded/<name>/ (patch.diff, demo.rs, meta.json): apply the patch to /repo
(git apply), optionally confirm that the repository's own test suite still passes and
that the demonstration fails, run the quick check of the property it breaks (and with
--all-checks every other property's check too), and restore /repo (git checkout -- .).
Never commits anything to /repo.  Development aid, not a registered command.
"""
import json
import os
import subprocess
import sys

ROOT = os.path.dirname(os.path.dirname(os.path.abspath(__file__)))
SEEDED = os.path.join(ROOT, "seeded")


def sh(cmd, cwd=None, timeout=3600):
    e = dict(os.environ, CARGO_NET_OFFLINE="true")
    return subprocess.run(cmd, cwd=cwd, shell=isinstance(cmd, str), capture_output=True, text=True,
                          timeout=timeout, env=e)


def main():
    args = sys.argv[1:]
    allchecks = "--all-checks" in args
    tests = "--tests" in args
    names = [a for a in args if not a.startswith("--")] or sorted(os.listdir(SEEDED))
    assert sh("git -C /repo status --porcelain --untracked-files=no").stdout.strip() == "", "/repo is not clean"
    results = {}
    for name in names:
        d = os.path.join(SEEDED, name)
        if not os.path.isfile(os.path.join(d, "patch.diff")):
            continue
        meta = json.load(open(os.path.join(d, "meta.json")))
        prop = meta["property"]
        r = sh(["git", "-C", "/repo", "apply", os.path.join(d, "patch.diff")])
        if r.returncode != 0:
            results[name] = {"error": "patch does not apply: " + r.stderr.strip()}
            print(name, "PATCH-DOES-NOT-APPLY", r.stderr.strip()[:200])
            continue
        try:
            res = {"property": prop}
            if tests:
                t = sh("cargo test --offline 2>&1 | grep -c 'test result: ok'", cwd="/repo")
                f = sh("cargo test --offline 2>&1 | grep -c 'test result: FAILED'", cwd="/repo")
                res["suite_ok_groups"] = t.stdout.strip()
                res["suite_failed_groups"] = f.stdout.strip()
            props = [prop] + ([p for p in sorted(json.load(open(os.path.join(ROOT, "props.json")))) if p != prop]
                              if allchecks else [])
            caught = []
            for p in props:
                c = sh([os.path.join(ROOT, "check"), p, "quick"], cwd=ROOT)
                line = [l for l in c.stdout.splitlines() if l.startswith("VIOLATION")]
                detail = [l for l in c.stdout.splitlines() if l.startswith("detail:")]
                if c.returncode == 1 and line:
                    caught.append(p)
                    if p == prop:
                        res["violation"] = line[0]
                        res["detail"] = detail[0] if detail else ""
                        rp = line[0].split("replay=")[1].split()[0]
                        try:
                            rj = json.load(open(os.path.join(ROOT, rp)))
                            res["replay_kind"] = rj.get("kind")
                            res["replay_op"] = (rj.get("ops") or [{}])[0].get("op", "")[:200]
                        except Exception:
                            pass
                elif c.returncode not in (0, 1):
                    print(name, "CHECK-BROKEN", p, "rc=%d" % c.returncode)
                    res.setdefault("infra", []).append(p + ":" + c.stdout.strip()[-200:])
            res["caught_by"] = caught
            res["detected"] = prop in caught
            results[name] = res
            print(name, "DETECTED" if res["detected"] else "MISSED", "by", caught,
                  res.get("detail", ""), res.get("replay_kind", ""))
        finally:
            sh("git -C /repo checkout -- .")
    rf = os.path.join(ROOT, "seeded", "RESULTS.json")
    if [a for a in args if not a.startswith("--")] and os.path.exists(rf):
        # a partial run updates the record of the changes it ran and keeps the others
        merged = json.load(open(rf))
        merged.update(results)
        json.dump(dict(sorted(merged.items())), open(rf, "w"), indent=1)
    else:
        json.dump(results, open(rf, "w"), indent=1)
    missed = [n for n, r in results.items() if not r.get("detected")]
    print("seeded changes: %d, detected: %d, missed: %s" % (len(results), len(results) - len(missed), missed))


if __name__ == "__main__":
    main()
