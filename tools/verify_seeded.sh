#!/bin/sh
# Confirm sub-agent changes of one seeded round, independently of the agent's own report.
#   tools/verify_seeded.sh <round_dir> <ID> [variants, default "A B"]
# For <round_dir>/<ID>.out/<v>/{patch.diff,demo.rs}: in a fresh scratch worktree of /repo HEAD
#   pristine + demo passes; change + the repository's unedited suite passes; change + demo fails.
# Writes one line per variant to <round_dir>/verify_<ID>.txt; removes the worktree and its build output.
rd=$1; id=$2; vs=${3:-A B}
export CARGO_NET_OFFLINE=true
: > "$rd/verify_$id.txt"
for v in $vs; do
  src="$rd/$id.out/$v"
  [ -f "$src/patch.diff" ] && [ -f "$src/demo.rs" ] || { echo "$id$v missing-files" >> "$rd/verify_$id.txt"; continue; }
  wt="$rd/v_$id$v"
  git -C /repo worktree remove --force "$wt" 2>/dev/null
  git -C /repo worktree add --detach "$wt" HEAD >/dev/null 2>&1
  cp "$src/demo.rs" "$wt/tests/demo.rs"
  (cd "$wt" && cargo test --offline --test demo >"$wt/../log_$id$v.pristine" 2>&1); p=$?
  [ $p -eq 0 ] && pd=1 || pd=0
  rm "$wt/tests/demo.rs"
  if git -C "$wt" apply "$src/patch.diff" 2>"$wt/../log_$id$v.apply"; then ap=1; else ap=0; fi
  (cd "$wt" && cargo test --offline >"$wt/../log_$id$v.suite" 2>&1)
  ok=$(grep -c 'test result: ok' "$wt/../log_$id$v.suite"); fl=$(grep -c 'test result: FAILED' "$wt/../log_$id$v.suite")
  cp "$src/demo.rs" "$wt/tests/demo.rs"
  (cd "$wt" && cargo test --offline --test demo >"$wt/../log_$id$v.changed" 2>&1); c=$?
  if [ $c -ne 0 ] && grep -q 'test result: FAILED\|panicked\|overflowed its stack\|SIGABRT\|signal: 6\|SIGSEGV' "$wt/../log_$id$v.changed"; then cf=1; else cf=0; fi
  echo "$id$v applied=$ap pristine_demo_ok=$pd suite_ok_groups=$ok suite_failed_groups=$fl changed_demo_failed=$cf" >> "$rd/verify_$id.txt"
  git -C /repo worktree remove --force "$wt"
done
cat "$rd/verify_$id.txt"
