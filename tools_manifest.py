#!/usr/bin/env python3
"""Regenerate MANIFEST.json from manifest_src.json (per-property texts) — keeps it valid."""
import json, os
ROOT = os.path.dirname(os.path.abspath(__file__))
src = json.load(open(os.path.join(ROOT, "manifest_src.json")))
ALL = ["C%02d" % i for i in range(1, 21)]
def chk(pid, e):
    return {"property_id": pid, "quick_cmd": "./check %s quick" % pid, "thorough_cmd": "./check %s thorough" % pid,
            "evidence_file": "evidence/%s.json" % pid, "replay_cmd_template": "./check %s --replay {path}" % pid,
            "engine": "lean4-proof+correspondence",
            "level_claimed": {"category": "proof", "text": e["text"], "design_ref": "DESIGN §4 " + pid},
            "level_note": e["note"], "technique": e["technique"]}
claimed = [p for p in ALL if p in src["claimed"]]
m = {
 "version": 1,
 "setup_cmd": "./setup.sh",
 "hooks": src["hooks"],
 "engines": [{"name": "lean4-proof+correspondence", "path": "check", "serves_properties": claimed,
              "kind_free_text": "Lean 4 theorems about a hand-written executable model (lean/PkgsrcVerif), axiom-audited on every run; model tied to /repo by a Rust differential harness (harness/) whose op stream is evaluated by the real code and by the compiled Lean model + specification oracle (lean drivers), then diffed"}],
 "checks": [chk(p, src["claimed"][p]) for p in claimed],
 "not_applicable": [{"property_id": p, "reason": src["unclaimed"].get(p, "check under construction in this session; will be claimed once its theorems and correspondence run")} for p in ALL if p not in claimed],
 "notes": src["notes"],
}
json.dump(m, open(os.path.join(ROOT, "MANIFEST.json"), "w"), indent=1)
print("claimed:", " ".join(claimed))
